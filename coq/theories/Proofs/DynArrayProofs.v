(* Proofs/DynArrayProofs.v — the DynamicNumpyArray model refines the Python-list spec,
   for every operation sequence that is valid on the list. *)
From Coq Require Import ZArith List Bool Lia Znumtheory.
From JV Require Import Spec.ListSpec Model.DynArray Proofs.ListLemmas.
Import ListNotations.
Local Open Scope Z_scope.

Section P.
Context {A : Type}.
Variable zero : A.
Variable drop_at : option Z.
Hypothesis drop_pos : match drop_at with Some d => 0 < d | None => True end.

Notation dyn := (dyn A).
Notation step := (step zero drop_at).
Notation lstep := (lstep zero drop_at).
Notation zeros := (zeros zero).
Notation apply_drop := (apply_drop zero drop_at).
Notation shift_left := (shift_left zero).

(* canonical form of a state: logical rows l, padding p *)
Definition mk (l p : list A) (b : nat) : dyn := {| idx := zlen l - 1; arr := l ++ p; bucket := b |}.

Definition Inv (s : dyn) : Prop :=
  -1 <= idx s /\ idx s < zlen (arr s) /\ 0 < zlen (arr s) /\ (0 < bucket s)%nat.

Definition good (l p : list A) (b : nat) : Prop := l ++ p <> [] /\ (0 < b)%nat.

Lemma dyn_eq i i' (a a' : list A) b : i = i' -> a = a' ->
  {| idx := i; arr := a; bucket := b |} = {| idx := i'; arr := a'; bucket := b |}.
Proof. intros -> ->. reflexivity. Qed.

Lemma abs_mk l p b : abs (mk l p b) = l.
Proof.
  unfold abs, mk; cbn [idx arr]. replace (Z.to_nat (zlen l - 1 + 1)) with (length l) by (unfold zlen; lia).
  apply firstn_app_exact.
Qed.

Lemma Inv_mk l p b : good l p b -> Inv (mk l p b).
Proof.
  intros [H Hb]. unfold Inv, mk; cbn [idx arr bucket]. rewrite zlen_app.
  assert (0 < zlen (l ++ p)). { unfold zlen. destruct (l ++ p); [congruence|cbn; lia]. }
  rewrite zlen_app in H0. pose proof (zlen_nonneg l). pose proof (zlen_nonneg p). lia.
Qed.

Lemma repr s : Inv s -> exists l p, s = mk l p (bucket s) /\ good l p (bucket s).
Proof.
  intros (H1 & H2 & H3 & H4). destruct s as [i a b]; cbn [idx arr bucket] in *.
  exists (firstn (Z.to_nat (i + 1)) a), (skipn (Z.to_nat (i + 1)) a).
  unfold mk, good. rewrite firstn_skipn. split; [f_equal|split; [|assumption]].
  - unfold zlen in *. rewrite firstn_length. lia.
  - intros E. rewrite E in H3. cbn in H3. lia.
Qed.

Lemma init_good b : (0 < b)%nat -> init zero b = mk [] (zeros b) b /\ good [] (zeros b) b.
Proof.
  intros Hb. split; [reflexivity|]. split; [|assumption]. cbn [app]. unfold DynArray.zeros.
  destruct b; [lia|cbn; congruence].
Qed.

Lemma skipn_ge (l : list A) a b : (length l <= a)%nat -> (length l <= b)%nat -> skipn a l = skipn b l.
Proof. intros. rewrite !skipn_all2 by assumption. reflexivity. Qed.

Lemma upd_range_nil (l : list A) k : upd_range l k [] = l.
Proof. unfold upd_range. cbn [app length]. rewrite Nat.add_0_r. apply firstn_skipn. Qed.

Lemma zlen_nil : zlen (@nil A) = 0. Proof. reflexivity. Qed.
Lemma zlen_cons (x : A) l : zlen (x :: l) = 1 + zlen l. Proof. unfold zlen. cbn [length]. lia. Qed.

Lemma div2_le d : 1 <= d -> 0 <= d / 2 <= d - 1.
Proof. intros. pose proof (Z.div_mod d 2). pose proof (Z.mod_pos_bound d 2). lia. Qed.

Lemma mod0_le d n : 0 < d -> 0 < n -> n mod d = 0 -> d <= n.
Proof.
  intros Hd Hn Hm. apply Z.divide_pos_le; [assumption|]. apply Z.mod_divide; [lia|assumption].
Qed.

Lemma norm_bound_range n b : 0 <= n -> 0 <= norm_bound n b <= n.
Proof. intros. unfold norm_bound. destruct (b <? 0) eqn:E; [apply Z.ltb_lt in E|apply Z.ltb_ge in E]; lia. Qed.
Lemma slice_lo_range n lo : 0 <= n -> 0 <= slice_lo n lo <= n.
Proof. intros. destruct lo; cbn; [apply norm_bound_range; assumption|lia]. Qed.
Lemma slice_hi_range n hi : 0 <= n -> 0 <= slice_hi n hi <= n.
Proof. intros. destruct hi; cbn; [apply norm_bound_range; assumption|lia]. Qed.

(* ------------------------------------------------------------------ the drop step *)
Lemma apply_drop_spec (g : bool) (l p : list A) :
  let n := zlen l in
  l <> [] -> g = negb (n =? 1) ->
  exists l' p', apply_drop g (n - 1) (l ++ p) = (zlen l' - 1, l' ++ p')
    /\ l' = drop_rule drop_at l /\ length (l' ++ p') = length (l ++ p).
Proof.
  intros n Hl Hg. unfold DynArray.apply_drop, drop_rule. destruct drop_at as [d|]; [|exists l, p; auto].
  assert (Hn : 0 < n). { subst n. unfold zlen. destruct l; [congruence|cbn; lia]. }
  replace (n - 1 + 1) with n by lia. rewrite Hg.
  fold n. destruct (negb (n =? 1) && (n mod d =? 0)) eqn:E; [|exists l, p; auto].
  apply andb_true_iff in E. destruct E as [E1 E2]. apply Z.eqb_eq in E2.
  pose proof (mod0_le d n drop_pos Hn E2) as Hle. pose proof (div2_le d ltac:(lia)) as Hd2.
  set (k := Z.to_nat (d / 2)). assert (Hk : (k <= length l)%nat) by (subst k n; unfold zlen in *; lia).
  exists (skipn k l), (p ++ zeros k). split; [|split; [reflexivity|]].
  - unfold DynArray.shift_left. rewrite skipn_app_le by assumption.
    replace (Nat.min k (length (l ++ p))) with k by (rewrite app_length; lia).
    rewrite <- app_assoc. f_equal. unfold zlen. rewrite skipn_length. subst k n. unfold zlen in *. lia.
  - rewrite !app_length, skipn_length. unfold DynArray.zeros. rewrite repeat_length. lia.
Qed.

(* ------------------------------------------------------------------ one step *)
Lemma step_sim l p b o : good l p b -> valid_op l o = true ->
  exists l' p', step (mk l p b) o = (mk l' p' b, Ok (snd (lstep l o))) /\ l' = fst (lstep l o) /\ good l' p' b.
Proof.
  intros [Hne Hb] Hv. pose proof (zlen_nonneg l) as Hl0. pose proof (zlen_nonneg p) as Hp0.
  assert (HL : zlen (l ++ p) = zlen l + zlen p) by apply zlen_app.
  destruct o as [|i|lo hi|i r|lo hi rs|r|rs|i| | |k]; cbn [valid_op] in Hv.
  - (* Len *) exists l, p. cbn [step lstep fst snd mk idx]. replace (zlen l - 1 + 1) with (zlen l) by lia. repeat split; assumption.
  - (* GetI *)
    apply andb_true_iff in Hv. destruct Hv as [H1 H2]. apply Z.leb_le in H1. apply Z.ltb_lt in H2.
    exists l, p. cbn [step lstep fst snd mk idx arr]. unfold py_index.
    destruct (i <? 0) eqn:Ei.
    + apply Z.ltb_lt in Ei.
      replace ((zlen l - 1 =? -1) || (zlen l - 1 <? zlen l - 1 + 1 - Z.abs i) || (zlen l - 1 + 1 - Z.abs i <? 0)) with false
        by (symmetry; rewrite !orb_false_iff; repeat split; [apply Z.eqb_neq|apply Z.ltb_ge|apply Z.ltb_ge]; lia).
      replace (zlen l - 1 + 1 - Z.abs i) with (zlen l + i) by lia.
      rewrite app_nth1 by (unfold zlen in *; lia). repeat split; assumption.
    + apply Z.ltb_ge in Ei.
      replace ((zlen l - 1 =? -1) || (zlen l - 1 <? i) || (i <? 0)) with false
        by (symmetry; rewrite !orb_false_iff; repeat split; [apply Z.eqb_neq|apply Z.ltb_ge|apply Z.ltb_ge]; lia).
      rewrite app_nth1 by (unfold zlen in *; lia). repeat split; assumption.
  - (* GetS *)
    exists l, p. cbn [step lstep fst snd mk idx arr]. split; [|split; [reflexivity|split; assumption]].
    f_equal. f_equal. f_equal. unfold py_slice, np_slice, neg_norm; cbn [idx mk].
    replace (zlen l - 1 + 1) with (zlen l) by lia.
    set (n := zlen l) in *.
    assert (Hstop : Z.min (let b0 := match hi with Some b0 => b0 | None => n end in if b0 <? 0 then Z.max (n - Z.abs b0) 0 else b0) n
                    = slice_hi n hi).
    { unfold slice_hi, norm_bound. destruct hi as [h|]; cbn zeta; [|destruct (n <? 0) eqn:E; lia].
      destruct (h <? 0) eqn:E; [apply Z.ltb_lt in E|apply Z.ltb_ge in E]; lia. }
    cbn zeta in Hstop. rewrite Hstop.
    pose proof (slice_hi_range n hi Hl0) as [He0 He].
    rewrite firstn_app_le by (subst n; unfold zlen in *; lia).
    unfold slice_lo, norm_bound. destruct lo as [b0|]; [|reflexivity].
    destruct (b0 <? 0) eqn:E; [apply Z.ltb_lt in E|apply Z.ltb_ge in E].
    + f_equal. lia.
    + destruct (Z.le_gt_cases b0 n).
      * f_equal. lia.
      * apply skipn_ge; rewrite firstn_length; subst n; unfold zlen in *; lia.
  - (* SetI *)
    apply andb_true_iff in Hv. destruct Hv as [H1 H2]. apply Z.leb_le in H1. apply Z.ltb_lt in H2.
    cbn [step lstep fst snd mk idx arr bucket]. unfold py_index.
    destruct (i <? 0) eqn:Ei.
    + apply Z.ltb_lt in Ei.
      replace ((zlen l - 1 <? zlen l - 1 + 1 - Z.abs i) || (zlen l - 1 + 1 - Z.abs i <? 0)) with false
        by (symmetry; rewrite !orb_false_iff; repeat split; [apply Z.ltb_ge|apply Z.ltb_ge]; lia).
      replace (zlen l - 1 + 1 - Z.abs i) with (zlen l + i) by lia.
      exists (upd l (Z.to_nat (zlen l + i)) r), p.
      assert (Hk : (Z.to_nat (zlen l + i) < length l)%nat) by (unfold zlen in *; lia).
      rewrite upd_app by assumption. unfold mk. unfold zlen at 3. rewrite upd_length by assumption. fold (zlen l).
      repeat split; try assumption. intros E. apply (f_equal (@length A)) in E. rewrite app_length, upd_length in E by assumption.
      cbn in E. destruct l; cbn in *; lia.
    + apply Z.ltb_ge in Ei.
      replace ((zlen l - 1 <? i) || (i <? 0)) with false
        by (symmetry; rewrite !orb_false_iff; repeat split; [apply Z.ltb_ge|apply Z.ltb_ge]; lia).
      exists (upd l (Z.to_nat i) r), p.
      assert (Hk : (Z.to_nat i < length l)%nat) by (unfold zlen in *; lia).
      rewrite upd_app by assumption. unfold mk. unfold zlen at 2. rewrite upd_length by assumption. fold (zlen l).
      repeat split; try assumption. intros E. apply (f_equal (@length A)) in E. rewrite app_length, upd_length in E by assumption.
      cbn in E. destruct l; cbn in *; lia.
  - (* SetS *)
    apply Z.eqb_eq in Hv. unfold slice_len in Hv.
    cbn [step lstep fst snd mk idx arr bucket]. unfold neg_norm; cbn [idx mk].
    replace (zlen l - 1 + 1) with (zlen l) by lia. set (n := zlen l) in *.
    set (s' := slice_lo n lo) in *. set (e' := slice_hi n hi) in *.
    assert (Hs : 0 <= s' <= n) by (apply slice_lo_range; assumption).
    assert (He : 0 <= e' <= n) by (apply slice_hi_range; assumption).
    set (start := let b0 := match lo with Some b0 => b0 | None => 0 end in if b0 <? 0 then Z.max (n - Z.abs b0) 0 else b0).
    assert (Hstart : start = s' \/ (n < start /\ s' = n)).
    { subst start s'. unfold slice_lo, norm_bound. destruct lo as [b0|]; cbn zeta; [|left; reflexivity].
      destruct (b0 <? 0) eqn:E; [apply Z.ltb_lt in E|apply Z.ltb_ge in E]; lia. }
    set (stop := Z.min (let b0 := match hi with Some b0 => b0 | None => start + zlen rs end in
                        if b0 <? 0 then Z.max (n - Z.abs b0) 0 else b0) n).
    assert (Hstop : (zlen rs = 0 /\ stop <= start /\ 0 <= stop <= n) \/ (0 < zlen rs /\ stop = e' /\ start = s')).
    { pose proof (zlen_nonneg rs) as Hr0. destruct (Z.eq_dec (zlen rs) 0) as [E0|E0].
      - left. split; [assumption|]. subst stop e'. unfold slice_hi, norm_bound in *. destruct hi as [b0|]; cbn zeta.
        + destruct (b0 <? 0) eqn:E; [apply Z.ltb_lt in E|apply Z.ltb_ge in E]; lia.
        + rewrite E0. destruct (start + 0 <? 0) eqn:E; [apply Z.ltb_lt in E|apply Z.ltb_ge in E]; lia.
      - right. assert (start = s') by lia. split; [lia|]. split; [|assumption].
        subst stop e'. unfold slice_hi, norm_bound in *. destruct hi as [b0|]; cbn zeta.
        + destruct (b0 <? 0) eqn:E; [apply Z.ltb_lt in E|apply Z.ltb_ge in E]; lia.
        + destruct (start + zlen rs <? 0) eqn:E; [apply Z.ltb_lt in E|apply Z.ltb_ge in E]; lia. }
    fold start. fold stop. unfold np_assign, np_slice_len. rewrite HL. fold n.
    destruct Hstop as [(Hr & Hss & Hst)|(Hr & Hst & Hss)].
    + assert (rs = []) by (destruct rs; [reflexivity|rewrite zlen_cons in Hr; pose proof (zlen_nonneg rs); lia]). subst rs.
      replace (zlen [] =? Z.max 0 (Z.min stop (n + zlen p) - Z.min start (n + zlen p))) with true
        by (symmetry; apply Z.eqb_eq; rewrite zlen_nil; lia).
      rewrite !upd_range_nil. exists l, p. fold (mk l p b). repeat split; assumption.
    + replace (zlen rs =? Z.max 0 (Z.min stop (n + zlen p) - Z.min start (n + zlen p))) with true
        by (symmetry; apply Z.eqb_eq; lia).
      rewrite Hss. exists (upd_range l (Z.to_nat s') rs), p.
      assert (Hk : (Z.to_nat s' + length rs <= length l)%nat) by (subst n; unfold zlen in *; lia).
      rewrite upd_range_app by assumption. unfold mk. unfold zlen at 1. rewrite upd_range_length by assumption. fold (zlen l).
      repeat split; try assumption. intros E. apply (f_equal (@length A)) in E. rewrite app_length, upd_range_length in E by assumption.
      cbn in E. destruct l; cbn in *; [|lia]. destruct p; cbn in *; [congruence|lia].
  - (* Append *)
    cbn [step lstep fst snd mk idx arr bucket]. replace (zlen l - 1 + 1) with (zlen l) by lia.
    set (p1 := if zlen (l ++ p) <=? zlen l + 1 then p ++ zeros b else p).
    assert (Ha1 : (if zlen (l ++ p) <=? zlen l + 1 then (l ++ p) ++ zeros b else l ++ p) = l ++ p1).
    { subst p1. destruct (zlen (l ++ p) <=? zlen l + 1); [apply app_assoc_reverse|reflexivity]. }
    rewrite Ha1.
    assert (Hp1 : p1 <> []).
    { subst p1. destruct (zlen (l ++ p) <=? zlen l + 1) eqn:E.
      - unfold DynArray.zeros. destruct b; [lia|]. intros X. apply (f_equal (@length A)) in X. rewrite app_length in X. cbn in X. lia.
      - apply Z.leb_gt in E. rewrite HL in E. intros X. subst p. rewrite zlen_nil in E. lia. }
    (* write first, then see the drop on (l ++ [r]) *)
    assert (Hg0 : negb (zlen l =? 0) = negb (zlen (l ++ [r]) =? 1)).
    { rewrite zlen_app, zlen_cons, zlen_nil. destruct (zlen l =? 0) eqn:X1, (zlen l + (1 + 0) =? 1) eqn:X2; try reflexivity; lia. }
    destruct (apply_drop_spec (negb (zlen l =? 0)) (l ++ [r]) (tl p1) ltac:(destruct l; cbn; congruence) Hg0) as (l' & p' & Hd & Hl' & Hlen).
    rewrite zlen_app, zlen_cons, zlen_nil in Hd. replace (zlen l + (1 + 0) - 1) with (zlen l) in Hd by lia.
    (* relate apply_drop on the unwritten array to the written one *)
    unfold DynArray.apply_drop in *. destruct drop_at as [d|].
    + destruct (negb (zlen l =? 0) && ((zlen l + 1) mod d =? 0)) eqn:E.
      * apply andb_true_iff in E. destruct E as [E1 E2]. apply Z.eqb_eq in E2.
        assert (Hn : 0 < zlen l + 1) by lia.
        pose proof (mod0_le d _ drop_pos Hn E2) as Hle. pose proof (div2_le d ltac:(lia)) as Hd2.
        set (k := Z.to_nat (d / 2)) in *. assert (Hk : (k <= length l)%nat) by (subst k; unfold zlen in *; lia).
        injection Hd as Hd1 Hd2'.
        unfold DynArray.shift_left in *. rewrite skipn_app_le in Hd2' by (rewrite app_length; cbn; lia).
        rewrite skipn_app_le in Hd2' by assumption. rewrite skipn_app_le by assumption.
        assert (Hpos : np_pos ((skipn k l ++ p1) ++ zeros (Nat.min k (length (l ++ p1)))) (zlen l - d / 2) = Some (length (skipn k l))).
        { unfold np_pos. rewrite !zlen_app. pose proof (zlen_nonneg (skipn k l)). pose proof (zlen_nonneg p1).
          assert (0 < zlen p1) by (unfold zlen; destruct p1; [congruence|cbn; lia]).
          assert (zlen (skipn k l) = zlen l - d / 2) by (unfold zlen; rewrite skipn_length; subst k; unfold zlen in *; lia).
          pose proof (zlen_nonneg (zeros (Nat.min k (length (l ++ p1))))).
          replace ((0 <=? zlen l - d / 2) && (zlen l - d / 2 <? zlen (skipn k l) + zlen p1 + zlen (zeros (Nat.min k (length (l ++ p1))))))
            with true by (symmetry; apply andb_true_iff; split; [apply Z.leb_le|apply Z.ltb_lt]; lia).
          f_equal. unfold zlen in *. lia. }
        rewrite Hpos. rewrite <- app_assoc. rewrite upd_at_end
          by (intros X; apply (f_equal (@length A)) in X; rewrite app_length in X; destruct p1; cbn in *; [congruence|lia]).
        exists l', p'. split; [|split; [assumption|]].
        -- unfold mk. f_equal. apply dyn_eq.
           ++ exact Hd1.
           ++ rewrite <- Hd2'. rewrite <- !app_assoc. f_equal. f_equal.
              destruct p1 as [|y p1]; [congruence|]. cbn [tl app].
              rewrite !Nat.min_l by (repeat (rewrite app_length; cbn [length]); lia).
              reflexivity.
        -- split; [|assumption]. intros X. apply (f_equal (@length A)) in X. rewrite Hlen in X.
           rewrite !app_length in X. cbn in X. lia.
      * injection Hd as Hd1 Hd2'.
        assert (Hpos : np_pos (l ++ p1) (zlen l) = Some (length l)).
        { unfold np_pos. rewrite zlen_app. assert (0 < zlen p1) by (unfold zlen; destruct p1; [congruence|cbn; lia]).
          replace ((0 <=? zlen l) && (zlen l <? zlen l + zlen p1)) with true
            by (symmetry; apply andb_true_iff; split; [apply Z.leb_le|apply Z.ltb_lt]; lia).
          f_equal. unfold zlen. lia. }
        rewrite Hpos. rewrite upd_at_end by assumption.
        exists l', p'. split; [|split; [assumption|]].
        -- unfold mk. f_equal. apply dyn_eq; [rewrite <- Hd1; lia|rewrite <- Hd2'; reflexivity].
        -- split; [|assumption]. intros X. apply (f_equal (@length A)) in X. rewrite Hlen in X.
           rewrite !app_length in X. cbn in X. lia.
    + injection Hd as Hd1 Hd2'.
      assert (Hpos : np_pos (l ++ p1) (zlen l) = Some (length l)).
      { unfold np_pos. rewrite zlen_app. assert (0 < zlen p1) by (unfold zlen; destruct p1; [congruence|cbn; lia]).
        replace ((0 <=? zlen l) && (zlen l <? zlen l + zlen p1)) with true
          by (symmetry; apply andb_true_iff; split; [apply Z.leb_le|apply Z.ltb_lt]; lia).
        f_equal. unfold zlen. lia. }
      rewrite Hpos. rewrite upd_at_end by assumption.
      exists l', p'. split; [|split; [assumption|]].
      -- unfold mk. f_equal. apply dyn_eq; [rewrite <- Hd1; lia|rewrite <- Hd2'; reflexivity].
      -- split; [|assumption]. intros X. apply (f_equal (@length A)) in X. rewrite Hlen in X.
         rewrite !app_length in X. cbn in X. lia.
  - (* AppendMany *)
    cbn [step lstep fst snd mk idx arr bucket]. pose proof (zlen_nonneg rs) as Hr0.
    set (i := zlen l - 1 + zlen rs).
    set (p1 := if negb (i =? 0) && (zlen (l ++ p) <=? i + 1) then p ++ zeros (Nat.max (length rs) b) else p).
    assert (Ha1 : (if negb (i =? 0) && (zlen (l ++ p) <=? i + 1) then (l ++ p) ++ zeros (Nat.max (length rs) b) else l ++ p) = l ++ p1).
    { subst p1. destruct (negb (i =? 0) && (zlen (l ++ p) <=? i + 1)); [apply app_assoc_reverse|reflexivity]. }
    rewrite Ha1.
    assert (Hnz : 0 < zlen (l ++ p)). { unfold zlen. destruct (l ++ p); [congruence|cbn; lia]. }
    assert (Hp1 : (length rs <= length p1)%nat /\ (rs = [] -> l = [] -> p1 <> [])).
    { subst p1. destruct (negb (i =? 0) && (zlen (l ++ p) <=? i + 1)) eqn:E.
      - split.
        + rewrite app_length. unfold DynArray.zeros. rewrite repeat_length. lia.
        + intros -> ->. intros X. apply (f_equal (@length A)) in X. rewrite app_length in X. unfold DynArray.zeros in X.
          rewrite repeat_length in X. cbn in X. lia.
      - split.
        + apply andb_false_iff in E. destruct E as [E|E].
          * apply negb_false_iff, Z.eqb_eq in E. subst i. rewrite HL in Hnz. unfold zlen in *. lia.
          * apply Z.leb_gt in E. subst i. rewrite HL in E. unfold zlen in *. lia.
        + intros -> ->. cbn in Hne. assumption. }
    destruct Hp1 as [Hp1 Hp1'].
    replace (zlen l - 1 + 1) with (zlen l) by lia.
    unfold np_assign, np_slice_len. rewrite zlen_app.
    replace (zlen rs =? Z.max 0 (Z.min (i + 1) (zlen l + zlen p1) - Z.min (zlen l) (zlen l + zlen p1))) with true
      by (symmetry; apply Z.eqb_eq; subst i; pose proof (zlen_nonneg p1); unfold zlen in *; lia).
    replace (Z.to_nat (zlen l)) with (length l) by (unfold zlen; lia).
    rewrite upd_range_at_end by assumption.
    assert (Hrs : rs = [] \/ 0 < zlen rs) by (destruct rs; [left; reflexivity|right; rewrite zlen_cons; pose proof (zlen_nonneg rs); lia]).
    destruct Hrs as [Ers|Hrpos]; [subst rs|].
    + (* nothing appended: the drop rule may still fire on l *)
      rewrite app_nil_r in *. cbn [skipn length]. subst i. rewrite zlen_nil, Z.add_0_r in *.
      destruct l as [|x l0] eqn:El.
      * cbn [app]. rewrite zlen_nil. unfold DynArray.apply_drop, drop_rule. rewrite zlen_nil.
        replace (0 <? 0 - 1) with false by reflexivity. cbn [andb].
        exists [], p1. unfold mk. rewrite zlen_nil. cbn [app].
        assert (Hdr : (match drop_at with Some d => if negb (0 =? 1) && (0 mod d =? 0) then skipn (Z.to_nat (d / 2)) [] else [] | None => [] end) = (@nil A)).
        { destruct drop_at as [d|]; [|reflexivity]. destruct (negb (0 =? 1) && (0 mod d =? 0)); [apply skipn_nil|reflexivity]. }
        split; [destruct drop_at; reflexivity|]. split; [symmetry; exact Hdr|]. split; [|assumption]. cbn [app]. auto.
      * rewrite <- El in *. assert (Hl : l <> []) by (subst l; congruence).
        assert (Hg0 : (0 <? zlen l - 1) = negb (zlen l =? 1)).
        { assert (0 < zlen l) by (subst l; rewrite zlen_cons; pose proof (zlen_nonneg l0); lia).
          destruct (0 <? zlen l - 1) eqn:X1, (zlen l =? 1) eqn:X2; try reflexivity; lia. }
        destruct (apply_drop_spec _ l p1 Hl Hg0) as (l' & p' & Hd & Hl' & Hlen).
        rewrite Hd. exists l', p'. unfold mk. split; [reflexivity|]. split; [assumption|]. split; [|assumption].
        intros X. apply (f_equal (@length A)) in X. rewrite Hlen in X. rewrite app_length in X. subst l. cbn in X. lia.
    + assert (Hl : l ++ rs <> []) by (intros X; apply (f_equal (@length A)) in X; rewrite app_length in X; unfold zlen in *; cbn in X; lia).
      assert (Hg0 : (0 <? i) = negb (zlen (l ++ rs) =? 1)).
      { rewrite zlen_app. subst i. destruct (0 <? zlen l - 1 + zlen rs) eqn:X1, (zlen l + zlen rs =? 1) eqn:X2; try reflexivity; lia. }
      destruct (apply_drop_spec _ (l ++ rs) (skipn (length rs) p1) Hl Hg0) as (l' & p' & Hd & Hl' & Hlen).
      rewrite zlen_app in Hd. replace (zlen l + zlen rs - 1) with i in Hd by (subst i; lia).
      rewrite Hd. exists l', p'. unfold mk. split; [reflexivity|]. split; [assumption|]. split; [|assumption].
      intros X. apply (f_equal (@length A)) in X. rewrite Hlen in X. rewrite !app_length in X. unfold zlen in *. cbn in X. lia.
  - (* Delete *)
    apply andb_true_iff in Hv. destruct Hv as [H1 H2]. apply Z.leb_le in H1. apply Z.ltb_lt in H2.
    cbn [step lstep fst snd mk idx arr bucket]. unfold py_index.
    replace (zlen l - 1 + 1) with (zlen l) by lia.
    set (i' := if i <? 0 then zlen l - Z.abs i else i).
    assert (Hi : i' = (if i <? 0 then zlen l + i else i) /\ 0 <= i' < zlen l).
    { subst i'. destruct (i <? 0) eqn:E; [apply Z.ltb_lt in E|apply Z.ltb_ge in E]; lia. }
    destruct Hi as [Hi1 Hi2]. rewrite <- Hi1.
    unfold np_pos. rewrite HL.
    replace ((0 <=? i') && (i' <? zlen l + zlen p)) with true
      by (symmetry; apply andb_true_iff; split; [apply Z.leb_le|apply Z.ltb_lt]; lia).
    assert (Hk : (Z.to_nat i' < length l)%nat) by (unfold zlen in *; lia).
    rewrite remove_nth_app by assumption.
    set (l1 := remove_nth l (Z.to_nat i')).
    assert (Hl1 : zlen l1 = zlen l - 1) by (subst l1; unfold zlen; rewrite remove_nth_length by assumption; lia).
    exists l1. destruct (length (l1 ++ p) <=? b)%nat eqn:E.
    + exists (p ++ zeros b). unfold mk. rewrite Hl1. rewrite <- app_assoc. split; [f_equal; f_equal; lia|]. split; [reflexivity|].
      split; [|assumption]. intros X. apply (f_equal (@length A)) in X. rewrite !app_length in X. unfold DynArray.zeros in X.
      rewrite repeat_length in X. cbn in X. lia.
    + exists p. unfold mk. rewrite Hl1. split; [f_equal; f_equal; lia|]. split; [reflexivity|]. split; [|assumption].
      apply Nat.leb_gt in E. intros X. rewrite X in E. cbn in E. lia.
  - (* Flush *)
    exists [], (zeros b). cbn [step lstep fst snd mk bucket]. split; [reflexivity|]. split; [reflexivity|].
    split; [|assumption]. cbn [app]. unfold DynArray.zeros. destruct b; [lia|cbn; congruence].
  - (* Last *)
    apply Z.ltb_lt in Hv. exists l, p. cbn [step lstep fst snd mk idx arr].
    replace (zlen l - 1 =? -1) with false by (symmetry; apply Z.eqb_neq; lia).
    unfold np_pos. rewrite HL.
    replace ((0 <=? zlen l - 1) && (zlen l - 1 <? zlen l + zlen p)) with true
      by (symmetry; apply andb_true_iff; split; [apply Z.leb_le|apply Z.ltb_lt]; lia).
    rewrite app_nth1 by (unfold zlen in *; lia).
    replace (Z.to_nat (zlen l - 1)) with (length l - 1)%nat by (unfold zlen in *; lia).
    rewrite nth_last by (intros ->; rewrite zlen_nil in Hv; lia).
    repeat split; assumption.
  - (* Past *)
    apply andb_true_iff in Hv. destruct Hv as [H1 H2]. apply Z.leb_le in H1. apply Z.ltb_lt in H2.
    exists l, p. cbn [step lstep fst snd mk idx arr].
    replace (zlen l - 1 =? -1) with false by (symmetry; apply Z.eqb_neq; lia).
    replace (zlen l - 1 - k <? 0) with false by (symmetry; apply Z.ltb_ge; lia).
    unfold np_pos. rewrite HL.
    replace ((0 <=? zlen l - 1 - k) && (zlen l - 1 - k <? zlen l + zlen p)) with true
      by (symmetry; apply andb_true_iff; split; [apply Z.leb_le|apply Z.ltb_lt]; lia).
    rewrite app_nth1 by (unfold zlen in *; lia).
    repeat split; assumption.
Qed.

(* ------------------------------------------------------------------ whole histories *)
Lemma run_sim ops : forall l p b, good l p b -> valid_run zero drop_at l ops = true ->
  run zero drop_at (mk l p b) ops = map (@Ok A) (lrun zero drop_at l ops).
Proof.
  induction ops as [|o ops IH]; intros l p b Hg Hv; [reflexivity|].
  cbn [valid_run] in Hv. apply andb_true_iff in Hv. destruct Hv as [Hv1 Hv2].
  destruct (step_sim l p b o Hg Hv1) as (l' & p' & Hs & Hl' & Hg').
  cbn [run lrun]. rewrite Hs. destruct (lstep l o) as [l2 x] eqn:E. cbn [fst snd] in *. subst l2.
  cbn [map]. f_equal. apply IH; assumption.
Qed.

Theorem refines_list (b : nat) ops : (0 < b)%nat -> valid_run zero drop_at [] ops = true ->
  run zero drop_at (init zero b) ops = map (@Ok A) (lrun zero drop_at [] ops).
Proof.
  intros Hb Hv. destruct (init_good b Hb) as [-> Hg]. apply run_sim; assumption.
Qed.

Theorem no_spurious_error (b : nat) ops r : (0 < b)%nat -> valid_run zero drop_at [] ops = true ->
  In r (run zero drop_at (init zero b) ops) -> exists o, r = Ok o.
Proof.
  intros Hb Hv Hin. rewrite refines_list in Hin by assumption. apply in_map_iff in Hin.
  destruct Hin as (o & <- & _). exists o. reflexivity.
Qed.

(* every reachable state (from any Inv state) again satisfies Inv and abstracts to the list *)
Theorem reachable_inv s o : Inv s -> valid_op (abs s) o = true ->
  Inv (fst (step s o)) /\ abs (fst (step s o)) = fst (lstep (abs s) o).
Proof.
  intros HI Hv. destruct (repr s HI) as (l & p & Hs & Hg). rewrite Hs in *. rewrite abs_mk in *.
  destruct (step_sim l p _ o Hg Hv) as (l' & p' & Hst & Hl' & Hg'). cbn [bucket mk] in *.
  rewrite Hst. cbn [fst]. rewrite abs_mk. split; [apply Inv_mk; assumption|assumption].
Qed.

End P.

(* ------------------------------------------------------------------ the drop-oldest limit *)
Section Drop.
Context {A : Type}.
Variable zero : A.

Definition appends (d : Z) (rows : list A) : list A :=
  fold_left (fun l r => fst (lstep zero (Some d) l (Append r))) rows [].

Lemma drop_suffix_step d (hist l : list A) r : 2 <= d ->
  (exists k, l = skipn k hist) -> zlen l < d ->
  let l' := fst (lstep zero (Some d) l (Append r)) in
  (exists k, l' = skipn k (hist ++ [r])) /\ zlen l' < d.
Proof.
  intros Hd (k & Hk) Hlt. cbn [lstep fst]. unfold drop_rule.
  assert (Hz : zlen (l ++ [r]) = zlen l + 1) by (rewrite zlen_app; reflexivity).
  assert (Hsuf : l ++ [r] = skipn (Nat.min k (length hist)) (hist ++ [r])).
  { subst l. destruct (Nat.le_gt_cases k (length hist)).
    - rewrite Nat.min_l by assumption. rewrite skipn_app_le by assumption. reflexivity.
    - rewrite Nat.min_r by lia. rewrite skipn_all2 by lia. rewrite skipn_app_exact. reflexivity. }
  destruct (negb (zlen (l ++ [r]) =? 1) && (zlen (l ++ [r]) mod d =? 0)) eqn:E.
  - apply andb_true_iff in E. destruct E as [_ E]. apply Z.eqb_eq in E. rewrite Hz in E.
    pose proof (zlen_nonneg l). assert (zlen l + 1 = d).
    { pose proof (Z.div_mod (zlen l + 1) d ltac:(lia)). rewrite E in H0.
      assert (0 < (zlen l + 1) / d) by (apply Z.div_str_pos; split; [lia|]; apply (mod0_le d); lia).
      assert ((zlen l + 1) / d < 2) by (apply Z.div_lt_upper_bound; lia). nia. }
    pose proof (div2_le d ltac:(lia)). split.
    + exists (Z.to_nat (d / 2) + Nat.min k (length hist))%nat. rewrite Hsuf. rewrite skipn_skipn'. reflexivity.
    + assert (Hsk : zlen (skipn (Z.to_nat (d / 2)) (l ++ [r])) = zlen (l ++ [r]) - d / 2).
      { unfold zlen at 1. rewrite skipn_length. unfold zlen in *. lia. }
      rewrite Hsk, Hz. pose proof (Z.div_mod d 2 ltac:(lia)). pose proof (Z.mod_pos_bound d 2 ltac:(lia)). lia.
  - split; [exists (Nat.min k (length hist)); assumption|].
    rewrite Hz. apply andb_false_iff in E. destruct E as [E|E].
    + apply negb_false_iff, Z.eqb_eq in E. lia.
    + apply Z.eqb_neq in E. destruct (Z.eq_dec (zlen l + 1) d) as [X|X]; [|lia].
      rewrite Hz, X in E. rewrite Z.mod_same in E by lia. congruence.
Qed.

Theorem drop_is_suffix d rows : 2 <= d ->
  (exists k, appends d rows = skipn k rows) /\ zlen (appends d rows) < d.
Proof.
  intros Hd. unfold appends. induction rows as [|r rr IH] using rev_ind.
  - cbn [fold_left]. split; [exists 0%nat; reflexivity|unfold zlen; cbn; lia].
  - rewrite fold_left_app. cbn [fold_left]. destruct IH as [IH1 IH2].
    apply (drop_suffix_step d rr _ r Hd IH1 IH2).
Qed.

End Drop.
