(* Proofs/IndicatorBounds.v — C15: ranges and orderings of the core indicators (exact rationals), for every input series. *)
From Coq Require Import ZArith QArith Qcanon Lqa List Bool Arith Lia.
From JV Require Import Base.Num Base.QcTac Model.CandleView Model.Indicators.
Import ListNotations.
Local Open Scope Qc_scope.
Import QcI.

(* ------------------------------------------------------------------ generic: an invariant of the state gives a property of every output *)
Lemma mealy_forall {X Y S} (step : S -> X -> S * Y) (Inv : S -> Prop) (InX : X -> Prop) (P : Y -> Prop) :
  (forall s x, Inv s -> InX x -> Inv (fst (step s x)) /\ P (snd (step s x))) ->
  forall xs s, Inv s -> Forall InX xs -> Forall P (mealy step s xs).
Proof.
  intros H. induction xs as [|x r IH]; intros s Hs Hx; cbn [mealy]; [constructor|].
  apply Forall_cons_iff in Hx. destruct Hx as [Hx Hr]. destruct (H s x Hs Hx) as [A B]. destruct (step s x) as [s' y]. cbn [fst snd] in *.
  constructor; [exact B|apply IH; assumption].
Qed.

Lemma this_Q2Qc q : (this (Q2Qc q) == q)%Q.
Proof. unfold Q2Qc. cbn [this]. apply Qred_correct. Qed.
Lemma qofnat_nonneg n : 0 <= qofnat n.
Proof. unfold qofnat, Qcle. rewrite !this_Q2Qc. change 0%Q with (inject_Z 0). rewrite <- Zle_Qle. lia. Qed.
Lemma qofnat_pos n : (0 < n)%nat -> 0 < qofnat n.
Proof. intros H. unfold qofnat, Qclt. rewrite !this_Q2Qc. change 0%Q with (inject_Z 0). rewrite <- Zlt_Qlt. lia. Qed.
Lemma inv_pos x : 0 < x -> 0 < / x.
Proof. intros H. unfold Qclt in *. rewrite this_inv. change (this 0) with 0%Q in *. apply Qinv_lt_0_compat. exact H. Qed.
Lemma mul_inv_r x : x <> 0 -> x * / x = 1.
Proof. intros H. apply Qcmult_inv_r. exact H. Qed.

(* 0 <= a <= b, 0 < b  ->  0 <= a / b <= 1 *)
Lemma div_unit a b : 0 <= a -> a <= b -> 0 < b -> 0 <= a / b /\ a / b <= 1.
Proof.
  intros Ha Hab Hb. pose proof (inv_pos b Hb) as Hi.
  assert (Hn : b <> 0) by (intros E; rewrite E in Hb; revert Hb; unfold Qclt; cbn; lra).
  pose proof (mul_inv_r b Hn) as Hm. unfold Qcdiv. set (i := / b) in *. clearbody i. clear Hn. qc_arith. split; nra.
Qed.
Lemma div_nonneg a b : 0 <= a -> 0 < b -> 0 <= a / b.
Proof. intros Ha Hb. pose proof (inv_pos b Hb) as Hi. unfold Qcdiv. set (i := / b) in *. clearbody i. qc_arith. nra. Qed.

(* ------------------------------------------------------------------ RSI stays in [0, 100] *)
Definition in_range (lo hi : Qc) (o : option Qc) : Prop := match o with Some v => lo <= v /\ v <= hi | None => True end.

Lemma rsi_value_range g l : 0 <= g -> 0 <= l -> 0 <= rsi_value g l /\ rsi_value g l <= qofnat 100.
Proof.
  intros Hg Hl. unfold rsi_value. pose proof (qofnat_nonneg 100) as H100. destruct (qeqb_spec l 0) as [E|E]; [split; [exact H100|qc]|].
  assert (Lp : 0 < l) by (apply neq_Q in E; revert Hl E; unfold Qcle, Qclt; change (this 0) with 0%Q; intros; lra).
  assert (Gl : 0 < g + l) by (revert Hg Lp; qc_arith; intros; lra).
  assert (Ngl : g + l <> 0) by (intros Z; rewrite Z in Gl; revert Gl; unfold Qclt; cbn; lra).
  assert (Eq : qofnat 100 - qofnat 100 / (1 + g / l) = qofnat 100 * (g / (g + l))).
  { assert (N1 : 1 + g / l <> 0).
    { intros Z. pose proof (div_nonneg g l Hg Lp) as D. revert D Z. set (d := g / l). clearbody d. intros D Z. apply eq_Q in Z. revert D Z. qc_arith. intros. lra. }
    field. repeat split; assumption. }
  rewrite Eq. destruct (div_unit g (g + l) Hg) as [D0 D1]; [revert Hl; qc_arith; intros; lra|exact Gl|].
  set (d := g / (g + l)) in *. clearbody d. set (c := qofnat 100) in *. clearbody c. revert H100 D0 D1. qc_arith. intros. split; nra.
Qed.

Lemma smooth_nonneg a x p : (0 < p)%nat -> 0 <= a -> 0 <= x -> 0 <= (a * qofnat (p - 1) + x) / qofnat p.
Proof.
  intros Hp Ha Hx. apply div_nonneg; [|apply qofnat_pos; exact Hp]. pose proof (qofnat_nonneg (p - 1)) as H1.
  set (c := qofnat (p - 1)) in *. clearbody c. revert Ha Hx H1. qc_arith. intros. nra.
Qed.

Lemma qsum_nonneg l : Forall (fun x => 0 <= x) l -> 0 <= Indicators.qsum l.
Proof.
  unfold Indicators.qsum. assert (G : forall a, 0 <= a -> Forall (fun x => 0 <= x) l -> 0 <= fold_left Qcplus l a).
  { induction l as [|x r IH]; intros a Ha H; cbn [fold_left]; [exact Ha|]. apply Forall_cons_iff in H. destruct H as [Hx Hr].
    apply IH; [revert Ha Hx; qc_arith; intros; lra|exact Hr]. }
  intros H. apply G; [qc|exact H].
Qed.

Theorem rsi_in_range p xs : (0 < p)%nat -> Forall (in_range 0 (qofnat 100)) (rsi p xs).
Proof.
  intros Hp. unfold rsi.
  apply (mealy_forall _ (fun st => match snd st with Some (ag, al) => 0 <= ag /\ 0 <= al | None => True end) (fun _ => True)); [|exact I|apply Forall_forall; auto].
  intros [[prev diffs] avg] x Hinv _. cbn [snd] in Hinv. destruct prev as [px|]; [|cbn [fst snd]; split; [exact Hinv|exact I]].
  set (d := x - px).
  assert (Gn : 0 <= (if qltb 0 d then d else 0)) by (destruct (qltb_spec 0 d); qc).
  assert (Ln : 0 <= (if qltb d 0 then - d else 0)) by (destruct (qltb_spec d 0) as [L|L]; [revert L; qc_arith; intros; lra|qc]).
  destruct avg as [[ag al]|].
  - destruct Hinv as [Ha Hl]. cbn [fst snd].
    pose proof (smooth_nonneg ag _ p Hp Ha Gn) as A. pose proof (smooth_nonneg al _ p Hp Hl Ln) as B.
    split; [split; assumption|]. cbn [in_range]. apply rsi_value_range; assumption.
  - destruct (Nat.eqb (length (diffs ++ [d])) p); cbn [fst snd]; [|split; exact I].
    assert (A : 0 <= Indicators.qsum (map (fun d0 => if qltb 0 d0 then d0 else 0) (diffs ++ [d])) / qofnat p).
    { apply div_nonneg; [|apply qofnat_pos; exact Hp]. apply qsum_nonneg. apply Forall_forall. intros y Hy. apply in_map_iff in Hy. destruct Hy as (z & <- & _). destruct (qltb_spec 0 z); qc. }
    assert (B : 0 <= Indicators.qsum (map (fun d0 => if qltb 0 d0 then 0 else - d0) (diffs ++ [d])) / qofnat p).
    { apply div_nonneg; [|apply qofnat_pos; exact Hp]. apply qsum_nonneg. apply Forall_forall. intros y Hy. apply in_map_iff in Hy. destruct Hy as (z & <- & _).
      destruct (qltb_spec 0 z) as [L|L]; [qc|revert L; unfold Qclt; qc_arith; intros; lra]. }
    split; [split; assumption|]. cbn [in_range]. apply rsi_value_range; assumption.
Qed.
