(* Proofs/IndicatorBounds.v — C15: ranges and orderings of the core indicators (exact rationals), for every input series. *)
From Coq Require Import ZArith QArith Qcanon Lqa List Bool Arith Lia.
From JV Require Import Base.Num Base.QcTac Model.CandleView Model.Indicators.
Import ListNotations.
Local Open Scope Qc_scope.
Import QcI.

(* ------------------------------------------------------------------ generic: an invariant of the state gives a property of every output *)
Lemma mealy_forall {X Y S} (step : S -> X -> S * Y) (Inv : S -> Prop) (InX : X -> Prop) (P : Y -> Prop) :
  (forall s x, Inv s -> InX x -> Inv (fst (step s x)) /\ P (snd (step s x))) ->
  forall xs s, Inv s -> Forall InX xs -> Forall P (mealy step s xs).
Proof.
  intros H. induction xs as [|x r IH]; intros s Hs Hx; cbn [mealy]; [constructor|].
  apply Forall_cons_iff in Hx. destruct Hx as [Hx Hr]. destruct (H s x Hs Hx) as [A B]. destruct (step s x) as [s' y]. cbn [fst snd] in *.
  constructor; [exact B|apply IH; assumption].
Qed.

Lemma this_Q2Qc q : (this (Q2Qc q) == q)%Q.
Proof. unfold Q2Qc. cbn [this]. apply Qred_correct. Qed.
Lemma qofnat_nonneg n : 0 <= qofnat n.
Proof. unfold qofnat, Qcle. rewrite !this_Q2Qc. change 0%Q with (inject_Z 0). rewrite <- Zle_Qle. lia. Qed.
Lemma qofnat_pos n : (0 < n)%nat -> 0 < qofnat n.
Proof. intros H. unfold qofnat, Qclt. rewrite !this_Q2Qc. change 0%Q with (inject_Z 0). rewrite <- Zlt_Qlt. lia. Qed.
Lemma inv_pos x : 0 < x -> 0 < / x.
Proof. intros H. unfold Qclt in *. rewrite this_inv. change (this 0) with 0%Q in *. apply Qinv_lt_0_compat. exact H. Qed.
Lemma mul_inv_r x : x <> 0 -> x * / x = 1.
Proof. intros H. apply Qcmult_inv_r. exact H. Qed.

(* 0 <= a <= b, 0 < b  ->  0 <= a / b <= 1 *)
Lemma div_unit a b : 0 <= a -> a <= b -> 0 < b -> 0 <= a / b /\ a / b <= 1.
Proof.
  intros Ha Hab Hb. pose proof (inv_pos b Hb) as Hi.
  assert (Hn : b <> 0) by (intros E; rewrite E in Hb; revert Hb; unfold Qclt; cbn; lra).
  pose proof (mul_inv_r b Hn) as Hm. unfold Qcdiv. set (i := / b) in *. clearbody i. clear Hn. qc_arith. split; nra.
Qed.
Lemma div_nonneg a b : 0 <= a -> 0 < b -> 0 <= a / b.
Proof. intros Ha Hb. pose proof (inv_pos b Hb) as Hi. unfold Qcdiv. set (i := / b) in *. clearbody i. qc_arith. nra. Qed.

(* ------------------------------------------------------------------ RSI stays in [0, 100] *)
Definition in_range (lo hi : Qc) (o : option Qc) : Prop := match o with Some v => lo <= v /\ v <= hi | None => True end.

Lemma rsi_value_range g l : 0 <= g -> 0 <= l -> 0 <= rsi_value g l /\ rsi_value g l <= qofnat 100.
Proof.
  intros Hg Hl. unfold rsi_value. pose proof (qofnat_nonneg 100) as H100. destruct (qeqb_spec l 0) as [E|E]; [split; [exact H100|qc]|].
  assert (Lp : 0 < l) by (apply neq_Q in E; revert Hl E; unfold Qcle, Qclt; change (this 0) with 0%Q; intros; lra).
  assert (Gl : 0 < g + l) by (revert Hg Lp; qc_arith; intros; lra).
  assert (Ngl : g + l <> 0) by (intros Z; rewrite Z in Gl; revert Gl; unfold Qclt; cbn; lra).
  assert (Eq : qofnat 100 - qofnat 100 / (1 + g / l) = qofnat 100 * (g / (g + l))).
  { assert (N1 : 1 + g / l <> 0).
    { intros Z. pose proof (div_nonneg g l Hg Lp) as D. revert D Z. set (d := g / l). clearbody d. intros D Z. apply eq_Q in Z. revert D Z. qc_arith. intros. lra. }
    field. repeat split; assumption. }
  rewrite Eq. destruct (div_unit g (g + l) Hg) as [D0 D1]; [revert Hl; qc_arith; intros; lra|exact Gl|].
  set (d := g / (g + l)) in *. clearbody d. set (c := qofnat 100) in *. clearbody c. revert H100 D0 D1. qc_arith. intros. split; nra.
Qed.

Lemma smooth_nonneg a x p : (0 < p)%nat -> 0 <= a -> 0 <= x -> 0 <= (a * qofnat (p - 1) + x) / qofnat p.
Proof.
  intros Hp Ha Hx. apply div_nonneg; [|apply qofnat_pos; exact Hp]. pose proof (qofnat_nonneg (p - 1)) as H1.
  set (c := qofnat (p - 1)) in *. clearbody c. revert Ha Hx H1. qc_arith. intros. nra.
Qed.

Lemma qsum_nonneg l : Forall (fun x => 0 <= x) l -> 0 <= Indicators.qsum l.
Proof.
  unfold Indicators.qsum. assert (G : forall a, 0 <= a -> Forall (fun x => 0 <= x) l -> 0 <= fold_left Qcplus l a).
  { induction l as [|x r IH]; intros a Ha H; cbn [fold_left]; [exact Ha|]. apply Forall_cons_iff in H. destruct H as [Hx Hr].
    apply IH; [revert Ha Hx; qc_arith; intros; lra|exact Hr]. }
  intros H. apply G; [qc|exact H].
Qed.

Theorem rsi_in_range p xs : (0 < p)%nat -> Forall (in_range 0 (qofnat 100)) (rsi p xs).
Proof.
  intros Hp. unfold rsi.
  apply (mealy_forall _ (fun st => match snd st with Some (ag, al) => 0 <= ag /\ 0 <= al | None => True end) (fun _ => True)); [|exact I|apply Forall_forall; auto].
  intros [[prev diffs] avg] x Hinv _. cbn [snd] in Hinv. destruct prev as [px|]; [|cbn [fst snd]; split; [exact Hinv|exact I]].
  set (d := x - px).
  assert (Gn : 0 <= (if qltb 0 d then d else 0)) by (destruct (qltb_spec 0 d); qc).
  assert (Ln : 0 <= (if qltb d 0 then - d else 0)) by (destruct (qltb_spec d 0) as [L|L]; [revert L; qc_arith; intros; lra|qc]).
  destruct avg as [[ag al]|].
  - destruct Hinv as [Ha Hl]. cbn [fst snd].
    pose proof (smooth_nonneg ag _ p Hp Ha Gn) as A. pose proof (smooth_nonneg al _ p Hp Hl Ln) as B.
    split; [split; assumption|]. cbn [in_range]. apply rsi_value_range; assumption.
  - destruct (Nat.eqb (length (diffs ++ [d])) p); cbn [fst snd]; [|split; exact I].
    assert (A : 0 <= Indicators.qsum (map (fun d0 => if qltb 0 d0 then d0 else 0) (diffs ++ [d])) / qofnat p).
    { apply div_nonneg; [|apply qofnat_pos; exact Hp]. apply qsum_nonneg. apply Forall_forall. intros y Hy. apply in_map_iff in Hy. destruct Hy as (z & <- & _). destruct (qltb_spec 0 z); qc. }
    assert (B : 0 <= Indicators.qsum (map (fun d0 => if qltb 0 d0 then 0 else - d0) (diffs ++ [d])) / qofnat p).
    { apply div_nonneg; [|apply qofnat_pos; exact Hp]. apply qsum_nonneg. apply Forall_forall. intros y Hy. apply in_map_iff in Hy. destruct Hy as (z & <- & _).
      destruct (qltb_spec 0 z) as [L|L]; [qc|revert L; unfold Qclt; qc_arith; intros; lra]. }
    split; [split; assumption|]. cbn [in_range]. apply rsi_value_range; assumption.
Qed.

(* ------------------------------------------------------------------ windows *)
Lemma lastn_incl {A} n (l : list A) : incl (lastn n l) l.
Proof. unfold lastn. intros x Hx. rewrite <- (firstn_skipn (length l - n) l). apply in_or_app. right. exact Hx. Qed.
Lemma lastn_length {A} n (l : list A) : length (lastn n l) = Nat.min n (length l).
Proof. unfold lastn. rewrite skipn_length. lia. Qed.

(* every defined value of a windowed indicator is f of a window of exactly w inputs, all taken from the series, the last of which
   is the current input *)
Lemma windowed_spec {A} (w : nat) (f : list A -> Qc) (P : list A -> Qc -> Prop) (InX : A -> Prop) :
  (forall buf, length buf = w -> Forall InX buf -> P buf (f buf)) ->
  forall xs, Forall InX xs -> Forall (fun o => match o with Some v => exists buf, length buf = w /\ Forall InX buf /\ P buf v | None => True end) (windowed w f xs).
Proof.
  intros H xs Hx. unfold windowed.
  apply (mealy_forall _ (fun buf => Forall InX buf) InX); [|constructor|exact Hx].
  intros buf x Hb Hx0. cbn [fst snd].
  assert (Hb' : Forall InX (lastn w (buf ++ [x]))).
  { apply Forall_forall. intros y Hy. apply lastn_incl in Hy. apply in_app_or in Hy. rewrite Forall_forall in Hb. destruct Hy as [Hy|[<-|[]]]; [apply Hb; exact Hy|exact Hx0]. }
  split; [exact Hb'|]. destruct (Nat.ltb_spec (length (lastn w (buf ++ [x]))) w) as [L|L]; [exact I|].
  exists (lastn w (buf ++ [x])). split; [rewrite lastn_length in *; lia|]. split; [exact Hb'|]. apply H; [rewrite lastn_length in *; lia|exact Hb'].
Qed.

Lemma qmaxl_ge l : forall d, d <= qmaxl d l /\ forall x, In x l -> x <= qmaxl d l.
Proof.
  unfold qmaxl. induction l as [|y l IH]; intros d; cbn [fold_left]; [split; [qc|intros x []]|].
  destruct (IH (if qltb d y then y else d)) as [A B].
  assert (M : d <= (if qltb d y then y else d) /\ y <= (if qltb d y then y else d)) by (destruct (qltb_spec d y); split; qc).
  destruct M as [M1 M2]. split; [qc|]. intros x [<-|Hx]; [qc|apply B; exact Hx].
Qed.
Lemma qminl_le l : forall d, qminl d l <= d /\ forall x, In x l -> qminl d l <= x.
Proof.
  unfold qminl. induction l as [|y l IH]; intros d; cbn [fold_left]; [split; [qc|intros x []]|].
  destruct (IH (if qltb y d then y else d)) as [A B].
  assert (M : (if qltb y d then y else d) <= d /\ (if qltb y d then y else d) <= y) by (destruct (qltb_spec y d); split; qc).
  destruct M as [M1 M2]. split; [qc|]. intros x [<-|Hx]; [qc|apply B; exact Hx].
Qed.

Definition sane (k : kc) : Prop := k_l k <= k_c k /\ k_c k <= k_h k.
Definition hh (l : list kc) : Qc := qmaxl (k_h (hd dflt_kc l)) (map k_h l).
Definition ll (l : list kc) : Qc := qminl (k_l (hd dflt_kc l)) (map k_l l).

Lemma window_bounds (l : list kc) : l <> [] -> Forall sane l ->
  (forall k, In k l -> ll l <= k_l k /\ k_h k <= hh l) /\ ll l <= k_c (last l dflt_kc) /\ k_c (last l dflt_kc) <= hh l /\ ll l <= hh l.
Proof.
  intros Hn Hs. rewrite Forall_forall in Hs.
  assert (A : forall k, In k l -> ll l <= k_l k /\ k_h k <= hh l).
  { intros k Hk. unfold ll, hh. split; [apply (proj2 (qminl_le (map k_l l) _)); apply in_map; exact Hk|apply (proj2 (qmaxl_ge (map k_h l) _)); apply in_map; exact Hk]. }
  assert (Hl : In (last l dflt_kc) l) by (destruct l; [congruence|apply exists_last in Hn; destruct Hn as (l' & a & ->); rewrite last_last; apply in_or_app; right; left; reflexivity]).
  destruct (A _ Hl) as [A1 A2]. destruct (Hs _ Hl) as [S1 S2]. split; [exact A|]. repeat split; qc.
Qed.

Lemma qofnat_2 : qofnat 2 = 1 + 1.
Proof. apply Qc_is_canon. reflexivity. Qed.
Lemma two_nonzero : (1 + 1 : Qc) <> 0.
Proof. intros Z. apply eq_Q in Z. revert Z. cbn. lra. Qed.

(* Donchian: lower <= middle <= upper, and the channel encloses every candle of the window *)
Theorem donchian_ordered_and_enclosing (l : list kc) : l <> [] -> Forall sane l ->
  ll l <= (hh l + ll l) / qofnat 2 /\ (hh l + ll l) / qofnat 2 <= hh l /\ forall k, In k l -> ll l <= k_l k /\ k_h k <= hh l.
Proof.
  intros Hn Hs. destruct (window_bounds l Hn Hs) as (A & _ & _ & B). split; [|split; [|exact A]].
  - assert (E : (hh l + ll l) / qofnat 2 = ll l + (hh l - ll l) / qofnat 2) by (rewrite qofnat_2; field; exact two_nonzero).
    rewrite E. assert (D : 0 <= (hh l - ll l) / qofnat 2) by (apply div_nonneg; [revert B; qc_arith; intros; lra|apply qofnat_pos; lia]).
    set (d := (hh l - ll l) / qofnat 2) in *. clearbody d. qc_arith. lra.
  - assert (E : (hh l + ll l) / qofnat 2 = hh l - (hh l - ll l) / qofnat 2) by (rewrite qofnat_2; field; exact two_nonzero).
    rewrite E. assert (D : 0 <= (hh l - ll l) / qofnat 2) by (apply div_nonneg; [revert B; qc_arith; intros; lra|apply qofnat_pos; lia]).
    set (d := (hh l - ll l) / qofnat 2) in *. clearbody d. qc_arith. lra.
Qed.

(* Williams %R in [-100, 0] and fast %K in [0, 100], for every window of sane candles *)
Lemma ratio_bounds a b c : a <= b -> b <= c -> a <> c -> 0 <= (b - a) / (c - a) /\ (b - a) / (c - a) <= 1.
Proof.
  intros H1 H2 N. apply div_unit; [revert H1; qc_arith; intros; lra|revert H2; qc_arith; intros; lra|].
  apply neq_Q in N. revert H1 H2 N. unfold Qcle, Qclt. qc_arith. intros. lra.
Qed.

Theorem willr_in_range p xs : (0 < p)%nat -> Forall sane xs -> Forall (in_range (- qofnat 100) 0) (willr p xs).
Proof.
  intros Hp Hs. unfold willr.
  eapply Forall_impl; [|apply (windowed_spec p _ (fun _ v => - qofnat 100 <= v /\ v <= 0) sane); [|exact Hs]].
  - intros [v|]; [intros (buf & _ & _ & H); exact H|auto].
  - intros buf Hl Hb. assert (Hn : buf <> []) by (destruct buf; [cbn in Hl; lia|congruence]).
    destruct (window_bounds buf Hn Hb) as (_ & A & B & Cc). fold (hh buf) (ll buf). pose proof (qofnat_nonneg 100) as H100.
    destruct (qeqb_spec (hh buf - ll buf) 0) as [E|E]; [split; [revert H100; qc_arith; intros; lra|qc]|].
    assert (N : ll buf <> hh buf) by (intros Z; apply E; rewrite Z; ring).
    assert (R : (hh buf - k_c (last buf dflt_kc)) / (hh buf - ll buf) = 1 - (k_c (last buf dflt_kc) - ll buf) / (hh buf - ll buf)) by (field; exact E).
    destruct (ratio_bounds _ _ _ A B N) as [R0 R1]. rewrite R.
    set (r := (k_c (last buf dflt_kc) - ll buf) / (hh buf - ll buf)) in *. clearbody r. set (c := qofnat 100) in *. clearbody c. revert H100 R0 R1. qc_arith. intros. split; nra.
Qed.

Theorem stoch_k_in_range p xs : (0 < p)%nat -> Forall sane xs -> Forall (in_range 0 (qofnat 100)) (stoch_k p xs).
Proof.
  intros Hp Hs. unfold stoch_k.
  eapply Forall_impl; [|apply (windowed_spec p _ (fun _ v => 0 <= v /\ v <= qofnat 100) sane); [|exact Hs]].
  - intros [v|]; [intros (buf & _ & _ & H); exact H|auto].
  - intros buf Hl Hb. assert (Hn : buf <> []) by (destruct buf; [cbn in Hl; lia|congruence]).
    destruct (window_bounds buf Hn Hb) as (_ & A & B & Cc). fold (hh buf) (ll buf). pose proof (qofnat_nonneg 100) as H100.
    destruct (qeqb_spec (hh buf - ll buf) 0) as [E|E]; [split; [qc|exact H100]|].
    assert (N : ll buf <> hh buf) by (intros Z; apply E; rewrite Z; ring).
    destruct (ratio_bounds _ _ _ A B N) as [R0 R1].
    set (r := (k_c (last buf dflt_kc) - ll buf) / (hh buf - ll buf)) in *. clearbody r. set (c := qofnat 100) in *. clearbody c. revert H100 R0 R1. qc_arith. intros. split; nra.
Qed.

(* ------------------------------------------------------------------ volatility measures are non-negative *)
Lemma qsum_fold l : forall a, fold_left Qcplus l a = a + Indicators.qsum l.
Proof.
  unfold Indicators.qsum. induction l as [|x r IH]; intros a; cbn [fold_left]; [ring|]. rewrite (IH (a + x)), (IH (0 + x)). ring.
Qed.
Lemma qsum_cons x l : Indicators.qsum (x :: l) = x + Indicators.qsum l.
Proof. unfold Indicators.qsum at 1. cbn [fold_left]. rewrite qsum_fold. ring. Qed.

Lemma mean_nonneg l : l <> [] -> Forall (fun x => 0 <= x) l -> 0 <= mean l.
Proof. intros Hn H. unfold mean. apply div_nonneg; [apply qsum_nonneg; exact H|apply qofnat_pos; destruct l; [congruence|cbn; lia]]. Qed.

Lemma true_range_nonneg ks : Forall sane ks -> Forall (fun x => 0 <= x) (true_range ks).
Proof.
  intros Hs. unfold true_range. apply (mealy_forall _ (fun _ => True) sane); [|exact I|exact Hs].
  intros prev k _ [S1 S2]. cbn [fst snd]. split; [exact I|].
  assert (HL : 0 <= k_h k - k_l k) by (revert S1 S2; qc_arith; intros; lra).
  destruct prev as [pc|]; [|exact HL].
  destruct (qltb_spec (k_h k - k_l k) (qabs (k_h k - pc))) as [L1|L1].
  - destruct (qltb_spec (qabs (k_h k - pc)) (qabs (k_l k - pc))); [|]; set (a := qabs (k_h k - pc)) in *; set (b := qabs (k_l k - pc)) in *; clearbody a b; qc_arith; lra.
  - destruct (qltb_spec (k_h k - k_l k) (qabs (k_l k - pc))); [set (b := qabs (k_l k - pc)) in *; clearbody b; qc_arith; lra|exact HL].
Qed.

Definition nonneg_opt (o : option Qc) : Prop := match o with Some v => 0 <= v | None => True end.

Theorem atr_nonneg p ks : (0 < p)%nat -> Forall sane ks -> Forall nonneg_opt (atr p ks).
Proof.
  intros Hp Hs. unfold atr, seeded.
  apply (mealy_forall _ (fun st : list Qc * option Qc => Forall (fun x => 0 <= x) (fst st) /\ match snd st with Some v => 0 <= v | None => True end) (fun x => 0 <= x));
    [|split; [constructor|exact I]|apply true_range_nonneg; exact Hs].
  intros [buf [prev|]] x [Hb Hv] Hx; cbn [fst snd] in *.
  - pose proof (smooth_nonneg prev x p Hp Hv Hx) as A. split; [split; assumption|exact A].
  - assert (Hb' : Forall (fun x => 0 <= x) (buf ++ [x])) by (apply Forall_app; split; [exact Hb|constructor; [exact Hx|constructor]]).
    destruct (Nat.eqb (length (buf ++ [x])) p); cbn [fst snd]; [|split; [split; [exact Hb'|exact I]|exact I]].
    assert (M : 0 <= mean (buf ++ [x])) by (apply mean_nonneg; [destruct buf; discriminate|exact Hb']).
    split; [split; [exact Hb'|exact M]|exact M].
Qed.

(* variance = mean of squares - square of the mean is never negative (n * sum of squares >= square of the sum) *)
Lemma sum_sq_shift l y : Indicators.qsum (map (fun x => (x - y) * (x - y)) l) =
  Indicators.qsum (map (fun x => x * x) l) - (1 + 1) * y * Indicators.qsum l + qofnat (length l) * y * y.
Proof.
  assert (Z0 : qofnat 0 = 0) by (apply Qc_is_canon; reflexivity).
  induction l as [|x r IH]; [unfold Indicators.qsum; cbn [map fold_left length]; rewrite Z0; ring|].
  cbn [map length]. rewrite !qsum_cons, IH.
  assert (E : qofnat (S (length r)) = 1 + qofnat (length r)).
  { unfold qofnat. apply Qc_is_canon. rewrite this_plus, !this_Q2Qc. change (this 1) with 1%Q. rewrite Nat2Z.inj_succ. unfold Z.succ. rewrite inject_Z_plus. cbn. ring. }
  rewrite E. ring.
Qed.

Lemma cauchy l : Indicators.qsum l * Indicators.qsum l <= qofnat (length l) * Indicators.qsum (map (fun x => x * x) l).
Proof.
  induction l as [|y r IH]; [unfold Indicators.qsum; cbn [map fold_left length]; assert (Z0 : qofnat 0 = 0) by (apply Qc_is_canon; reflexivity); rewrite Z0; qc_arith; lra|].
  cbn [map length]. rewrite !qsum_cons.
  assert (E : qofnat (S (length r)) = 1 + qofnat (length r)).
  { unfold qofnat. apply Qc_is_canon. rewrite this_plus, !this_Q2Qc. change (this 1) with 1%Q. rewrite Nat2Z.inj_succ. unfold Z.succ. rewrite inject_Z_plus. cbn. ring. }
  rewrite E.
  assert (Sq : 0 <= Indicators.qsum (map (fun x => (x - y) * (x - y)) r)).
  { apply qsum_nonneg. apply Forall_forall. intros z Hz. apply in_map_iff in Hz. destruct Hz as (x & <- & _). set (d := x - y). clearbody d. qc_arith. nra. }
  rewrite (sum_sq_shift r y) in Sq.
  set (S0 := Indicators.qsum r) in *. set (Q0 := Indicators.qsum (map (fun x => x * x) r)) in *. set (n := qofnat (length r)) in *. clearbody S0 Q0 n.
  revert IH Sq. qc_arith. intros. nra.
Qed.

Theorem var_nonneg p xs : (0 < p)%nat -> Forall nonneg_opt (var p xs).
Proof.
  intros Hp. unfold var.
  eapply Forall_impl; [|apply (windowed_spec p _ (fun _ v => 0 <= v) (fun _ => True)); [|apply Forall_forall; auto]].
  - intros [v|]; [intros (buf & _ & _ & H); exact H|auto].
  - intros buf Hl _. unfold mean. rewrite map_length, Hl.
    pose proof (cauchy buf) as Cs. rewrite Hl in Cs. pose proof (qofnat_pos p Hp) as Pp. pose proof (inv_pos _ Pp) as Ip.
    assert (Np : qofnat p <> 0) by (intros Z; rewrite Z in Pp; revert Pp; unfold Qclt; cbn; lra).
    pose proof (mul_inv_r _ Np) as Mi. unfold Qcdiv.
    set (S0 := Indicators.qsum buf) in *. set (Q0 := Indicators.qsum (map (fun x => x * x) buf)) in *. set (n := qofnat p) in *. set (i := / n) in *. clearbody S0 Q0 i n.
    clear Np. qc_arith.
    assert (K : (0 <= (this n * this Q0 - this S0 * this S0) * (this i * this i))%Q) by nra.
    nra.
Qed.

(* ------------------------------------------------------------------ price-homogeneous averages scale linearly with price *)
Lemma mealy_sim {X Y S} (step : S -> X -> S * Y) (g : X -> X) (h : Y -> Y) (R : S -> S -> Prop) :
  (forall s1 s2 x, R s1 s2 -> R (fst (step s1 x)) (fst (step s2 (g x))) /\ snd (step s2 (g x)) = h (snd (step s1 x))) ->
  forall xs s1 s2, R s1 s2 -> mealy step s2 (map g xs) = map h (mealy step s1 xs).
Proof.
  intros H. induction xs as [|x r IH]; intros s1 s2 HR; cbn [map mealy]; [reflexivity|].
  destruct (H s1 s2 x HR) as [A B]. destruct (step s1 x) as [s1' y1]. destruct (step s2 (g x)) as [s2' y2]. cbn [fst snd] in *. subst y2.
  cbn [map]. f_equal. apply IH. exact A.
Qed.

Lemma qsum_scale c l : Indicators.qsum (map (Qcmult c) l) = c * Indicators.qsum l.
Proof. induction l as [|x r IH]; [unfold Indicators.qsum; cbn; ring|]. cbn [map]. rewrite !qsum_cons, IH. ring. Qed.
Lemma mean_scale c l : l <> [] -> mean (map (Qcmult c) l) = c * mean l.
Proof.
  intros Hn. unfold mean. rewrite qsum_scale, map_length.
  assert (N : qofnat (length l) <> 0) by (intros Z; pose proof (qofnat_pos (length l) ltac:(destruct l; [congruence|cbn; lia])) as P; rewrite Z in P; revert P; unfold Qclt; cbn; lra).
  field. exact N.
Qed.
Lemma lastn_map {A B} (f : A -> B) n l : lastn n (map f l) = map f (lastn n l).
Proof. unfold lastn. rewrite map_length. apply skipn_map. Qed.

Lemma map_last_app {A B} (f : A -> B) l x : map f l ++ [f x] = map f (l ++ [x]).
Proof. rewrite map_app. reflexivity. Qed.

Definition scale_opt (c : Qc) (o : option Qc) : option Qc := match o with Some v => Some (c * v) | None => None end.

Theorem sma_homogeneous c p xs : (0 < p)%nat -> sma p (map (Qcmult c) xs) = map (scale_opt c) (sma p xs).
Proof.
  intros Hp. unfold sma, windowed. apply (mealy_sim _ (Qcmult c) (scale_opt c) (fun b1 b2 => b2 = map (Qcmult c) b1)); [|reflexivity].
  intros b1 b2 x ->. cbn [fst snd]. rewrite map_last_app. rewrite lastn_map. split; [reflexivity|]. rewrite map_length.
  destruct (Nat.ltb_spec (length (lastn p (b1 ++ [x]))) p) as [L|L]; [reflexivity|]. cbn [scale_opt]. f_equal. apply mean_scale.
  intros Z. rewrite Z in L. cbn in L. lia.
Qed.

Theorem ema_homogeneous c p xs : (0 < p)%nat -> ema p (map (Qcmult c) xs) = map (scale_opt c) (ema p xs).
Proof.
  intros Hp. unfold ema, seeded.
  apply (mealy_sim _ (Qcmult c) (scale_opt c) (fun s1 s2 => fst s2 = map (Qcmult c) (fst s1) /\ snd s2 = scale_opt c (snd s1))); [|split; reflexivity].
  intros [b1 [p1|]] [b2 o2] x [Hb Ho]; cbn [fst snd] in *; subst b2 o2; cbn [scale_opt snd fst].
  - split; [split; [reflexivity|cbn [snd scale_opt]; f_equal; ring]|cbn [scale_opt]; f_equal; ring].
  - rewrite map_last_app, map_length.
    destruct (Nat.eqb (length (b1 ++ [x])) p); cbn [fst snd scale_opt]; [|repeat split; reflexivity].
    assert (M : mean (map (Qcmult c) (b1 ++ [x])) = c * mean (b1 ++ [x])) by (apply mean_scale; destruct b1; discriminate).
    rewrite M. repeat split; reflexivity.
Qed.
