(* Proofs/CandleProofs.v — facts about the GENERATED split_candle (Gen/candle.v), instantiated at
   exact rationals: totality on the candle's range, validity of both halves, what is preserved. *)
From Coq Require Import ZArith QArith Qcanon Lqa List Bool.
From JV Require Import Base.Num Base.QcTac Gen.candle Spec.PathSpec.
Import ListNotations.
Local Open Scope Qc_scope.
Import QcI.

Notation split := (split_candle QcNum).

Ltac unf := unfold split_candle, is_bullish, is_bearish, candle_includes_price, valid, qmax, qmin in *;
            cbn [leb ltb eqb QcNum c_ts c_open c_close c_high c_low c_vol T] in *.

Ltac dec1 :=
  match goal with
  | |- context [qleb ?a ?b] => first
     [ let H := fresh in assert (H : qleb a b = true) by (destruct (qleb_spec a b); [reflexivity | exfalso; qc]); rewrite H; clear H
     | let H := fresh in assert (H : qleb a b = false) by (destruct (qleb_spec a b); [exfalso; qc | reflexivity]); rewrite H; clear H
     | destruct (qleb_spec a b) ]
  | |- context [qltb ?a ?b] => first
     [ let H := fresh in assert (H : qltb a b = true) by (destruct (qltb_spec a b); [reflexivity | exfalso; qc]); rewrite H; clear H
     | let H := fresh in assert (H : qltb a b = false) by (destruct (qltb_spec a b); [exfalso; qc | reflexivity]); rewrite H; clear H
     | destruct (qltb_spec a b) ]
  | |- context [qeqb ?a ?b] => first
     [ let H := fresh in assert (H : qeqb a b = true) by (destruct (qeqb_spec a b); [reflexivity | exfalso; qc]); rewrite H; clear H
     | let H := fresh in assert (H : qeqb a b = false) by (destruct (qeqb_spec a b); [exfalso; try subst; qc | reflexivity]); rewrite H; clear H
     | destruct (qeqb_spec a b) ]
  end.

Ltac tri a b :=
  let H := fresh "T" in let H2 := fresh "E" in
  destruct (qltb_spec a b) as [H|H]; [|destruct (qeqb_spec a b) as [H2|H2]; [try subst|]].

Ltac leaf :=
  unf; repeat (dec1; cbn [andb]);
  (eexists; eexists; split; [reflexivity|]); cbn [c_ts c_open c_close c_high c_low c_vol];
  repeat split; repeat dec1; try reflexivity; try congruence; try (apply Qc_is_canon; qc); try (exfalso; qc; fail); qc.

(* (i) totality and validity *)
Theorem split_total_valid (k : cndl) (p : Qc) : valid k -> c_low k <= p -> p <= c_high k ->
  exists a b, split k p = Val (a, b) /\ valid a /\ valid b /\
    c_open a = c_open k /\ c_close b = c_close k /\
    qmax (c_high a) (c_high b) = c_high k /\ qmin (c_low a) (c_low b) = c_low k /\
    c_ts a = c_ts k /\ c_ts b = c_ts k /\ c_vol a = c_vol k /\ c_vol b = c_vol k /\
    (p <> c_open k -> c_close a = p /\ c_open b = p).
Proof.
  destruct k as [t0 o0 c0 h0 l0 v0]. unfold valid. cbn [c_ts c_open c_close c_high c_low c_vol].
  intros (H1 & H2 & H3 & H4) H5 H6.
  destruct (qleb_spec o0 c0) as [Hb|Hr].
  - tri p o0.
    + tri l0 p; [leaf|leaf|exfalso; qc].
    + leaf.
    + tri p c0; [leaf|leaf|]. tri p h0; [leaf|leaf|exfalso; qc].
  - tri o0 p.
    + tri p h0; [leaf|leaf|exfalso; qc].
    + leaf.
    + tri c0 p; [leaf|leaf|]. tri l0 p; [leaf|leaf|exfalso; qc].
Qed.

(* outside the range nothing is returned: the simulator never calls it there *)
Theorem split_outside (k : cndl) (p : Qc) : valid k -> (p < c_low k \/ c_high k < p) -> split k p = Raise.
Proof.
  destruct k as [t0 o0 c0 h0 l0 v0]. unfold valid. cbn [c_ts c_open c_close c_high c_low c_vol].
  intros (H1 & H2 & H3 & H4) [H5|H5]; unf; repeat (dec1; cbn [andb]); try reflexivity; exfalso; qc.
Qed.
