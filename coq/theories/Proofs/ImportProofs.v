(* Proofs/ImportProofs.v — _fill_absent_candles returns one candle per minute, on the grid, keeping
   every provided candle and filling gaps with flat zero-volume candles at the previous close. *)
From Coq Require Import ZArith List Bool Lia.
From JV Require Import Model.Import.
Import ListNotations.
Local Open Scope Z_scope.

Section P.
Context {A : Type}.
Variable zero : A.
Notation icandle := (icandle A).
Notation flat := (flat zero).
Notation fill_loop := (fill_loop zero).

(* specification, by recursion on the minute index *)
Fixpoint spec (n : nat) (batch : list icandle) (first_open : A) (ts : Z) (started : bool) (prev_close : A) : list icandle :=
  match n with
  | O => []
  | S m =>
      match lookup batch ts with
      | None => let p := if started then prev_close else first_open in
                flat ts p :: spec m batch first_open (ts + 60000) started p
      | Some c => c :: spec m batch first_open (ts + 60000) true (iclose c)
      end
  end.

Lemma fill_loop_spec n : forall batch fo ts started acc,
  (started = true -> acc <> []) ->
  fill_loop n batch fo ts started acc =
  rev acc ++ spec n batch fo ts started (match acc with c :: _ => iclose c | [] => fo end).
Proof.
  induction n as [|m IH]; intros batch fo ts started acc Hs; cbn [Import.fill_loop spec].
  - rewrite app_nil_r. reflexivity.
  - destruct (lookup batch ts) as [c|] eqn:E.
    + rewrite IH by (intros _; discriminate). cbn [rev]. rewrite <- app_assoc. reflexivity.
    + rewrite IH.
      * cbn [rev]. rewrite <- app_assoc. cbn [app iclose Import.flat].
        destruct started; [|reflexivity]. destruct acc; [exfalso; apply Hs; reflexivity|reflexivity].
      * intros _. discriminate.
Qed.

Lemma spec_length n : forall batch fo ts st pc, length (spec n batch fo ts st pc) = n.
Proof. induction n as [|m IH]; intros; cbn [spec]; [reflexivity|]. destruct (lookup batch ts); cbn [length]; rewrite IH; reflexivity. Qed.

Lemma spec_ts n : forall batch fo ts st pc k c, nth_error (spec n batch fo ts st pc) k = Some c ->
  (forall x, In x batch -> True) ->
  (lookup batch (ts + 60000 * Z.of_nat k) = None -> its c = ts + 60000 * Z.of_nat k) /\
  (forall b, lookup batch (ts + 60000 * Z.of_nat k) = Some b -> c = b).
Proof.
  induction n as [|m IH]; intros batch fo ts st pc k c H _; cbn [spec] in H; [destruct k; discriminate|].
  destruct k as [|k].
  - replace (ts + 60000 * Z.of_nat 0) with ts by lia.
    destruct (lookup batch ts) as [b|] eqn:E; cbn [nth_error] in H; injection H as <-.
    + split; [intros X; discriminate|intros b' Hb; injection Hb as <-; reflexivity].
    + split; [intros _; reflexivity|intros b' Hb; discriminate].
  - replace (ts + 60000 * Z.of_nat (S k)) with ((ts + 60000) + 60000 * Z.of_nat k) by lia.
    destruct (lookup batch ts) as [b|]; cbn [nth_error] in H; eapply IH; eauto.
Qed.

Lemma lookup_ts (batch : list icandle) ts c : lookup batch ts = Some c -> its c = ts /\ In c batch.
Proof.
  unfold lookup. intros H. apply find_some in H. destruct H as [Hin H]. apply Z.eqb_eq in H. split; assumption.
Qed.

(* every row sits on the grid *)
Theorem fill_grid batch start finish l k c :
  fill_absent zero batch start finish = Filled l -> nth_error l k = Some c -> its c = start + 60000 * Z.of_nat k.
Proof.
  unfold fill_absent. destruct batch as [|c0 r]; [discriminate|]. intros H Hk. injection H as <-.
  rewrite fill_loop_spec in Hk by discriminate. cbn [rev app] in Hk.
  destruct (spec_ts _ _ _ _ _ _ _ _ Hk (fun _ _ => I)) as [A1 A2].
  destruct (lookup (c0 :: r) (start + 60000 * Z.of_nat k)) as [b|] eqn:E.
  - rewrite (A2 b eq_refl). apply lookup_ts in E. apply E.
  - apply A1. reflexivity.
Qed.

Theorem fill_length batch start finish l : start <= finish ->
  fill_absent zero batch start finish = Filled l -> Z.of_nat (length l) = (finish - start) / 60000 + 1.
Proof.
  unfold fill_absent. destruct batch as [|c0 r]; [discriminate|]. intros Hle H. injection H as <-.
  rewrite fill_loop_spec by discriminate. cbn [rev app]. rewrite spec_length.
  rewrite Z.quot_div_nonneg by lia. assert (0 <= (finish - start) / 60000) by (apply Z.div_pos; lia). lia.
Qed.

(* a provided candle on the grid (the first with its timestamp) is kept unchanged *)
Theorem fill_keeps batch start finish l k b :
  fill_absent zero batch start finish = Filled l -> (k < length l)%nat ->
  lookup batch (start + 60000 * Z.of_nat k) = Some b -> nth_error l k = Some b.
Proof.
  unfold fill_absent. destruct batch as [|c0 r]; [discriminate|]. intros H Hk Hb. injection H as <-.
  rewrite fill_loop_spec in * by discriminate. cbn [rev app] in *.
  destruct (nth_error (spec _ _ _ _ _ _) k) as [c|] eqn:E; [|apply nth_error_None in E; lia].
  destruct (spec_ts _ _ _ _ _ _ _ _ E (fun _ _ => I)) as [_ A2]. rewrite (A2 b Hb). reflexivity.
Qed.

(* a missing minute is a flat zero-volume candle; its price is the previous row's close, or the first
   provided candle's open while nothing has been provided yet *)
Lemma spec_missing n : forall batch fo ts st pc k c, nth_error (spec n batch fo ts st pc) k = Some c ->
  lookup batch (ts + 60000 * Z.of_nat k) = None ->
  exists p, c = flat (ts + 60000 * Z.of_nat k) p /\
    match k with
    | O => p = if st then pc else fo
    | S j => exists prev, nth_error (spec n batch fo ts st pc) j = Some prev /\
              (p = iclose prev \/ (p = fo /\ forall i, (i <= j)%nat -> lookup batch (ts + 60000 * Z.of_nat i) = None) /\ st = false)
    end.
Proof.
  induction n as [|m IH]; intros batch fo ts st pc k c H Hn; cbn [spec] in H; [destruct k; discriminate|].
  destruct k as [|k].
  - replace (ts + 60000 * Z.of_nat 0) with ts in * by lia. rewrite Hn in H. cbn [nth_error] in H. injection H as <-.
    eexists. split; reflexivity.
  - replace (ts + 60000 * Z.of_nat (S k)) with ((ts + 60000) + 60000 * Z.of_nat k) in * by lia.
    destruct (lookup batch ts) as [b|] eqn:E; cbn [nth_error] in H.
    + destruct (IH _ _ _ _ _ _ _ H Hn) as (p & Hc & Hp). exists p. split; [exact Hc|].
      destruct k as [|j].
      * exists b. cbn [spec]. rewrite E. split; [reflexivity|]. left. exact Hp.
      * destruct Hp as (prev & Hprev & Hpp). exists prev. cbn [spec]. rewrite E. cbn [nth_error]. split; [exact Hprev|].
        destruct Hpp as [Hpp|[_ Hf]]; [left; exact Hpp|discriminate].
    + destruct (IH _ _ _ _ _ _ _ H Hn) as (p & Hc & Hp). exists p. split; [exact Hc|].
      destruct k as [|j].
      * exists (flat ts (if st then pc else fo)). cbn [spec]. rewrite E. split; [reflexivity|]. cbn [iclose Import.flat].
        destruct st; [left; exact Hp|]. left. exact Hp.
      * destruct Hp as (prev & Hprev & Hpp). exists prev. cbn [spec]. rewrite E. cbn [nth_error]. split; [exact Hprev|].
        destruct Hpp as [Hpp|[[Hpf Hall] Hst]]; [left; exact Hpp|]. destruct st; [discriminate|].
        right. split; [split; [exact Hpf|]|reflexivity].
        intros i Hi. destruct i as [|i]; [replace (ts + 60000 * Z.of_nat 0) with ts by lia; exact E|].
        replace (ts + 60000 * Z.of_nat (S i)) with ((ts + 60000) + 60000 * Z.of_nat i) by lia. apply Hall. lia.
Qed.

Theorem fill_missing batch start finish l k c :
  fill_absent zero batch start finish = Filled l -> nth_error l k = Some c ->
  lookup batch (start + 60000 * Z.of_nat k) = None ->
  exists p, c = flat (start + 60000 * Z.of_nat k) p /\
    match k with
    | O => exists c0 r, batch = c0 :: r /\ p = iopen c0
    | S j => exists prev, nth_error l j = Some prev /\
              (p = iclose prev \/ (exists c0 r, batch = c0 :: r /\ p = iopen c0))
    end.
Proof.
  unfold fill_absent. destruct batch as [|c0 r]; [discriminate|]. intros H Hk Hn. injection H as <-.
  rewrite fill_loop_spec in * by discriminate. cbn [rev app] in *.
  destruct (spec_missing _ _ _ _ _ _ _ _ Hk Hn) as (p & Hc & Hp). exists p. split; [exact Hc|].
  destruct k as [|j].
  - exists c0, r. split; [reflexivity|exact Hp].
  - destruct Hp as (prev & Hprev & Hpp). exists prev. split; [exact Hprev|].
    destruct Hpp as [Hpp|[[Hpf _] _]]; [left; exact Hpp|right; exists c0, r; split; [reflexivity|exact Hpf]].
Qed.
End P.
