(* Proofs/SizingProofs.v — the GENERATED sizing helpers never overspend, over-risk or round up (exact rationals). *)
From Coq Require Import ZArith QArith Qcanon Qround Lqa Lia List Bool String.
From JV Require Import Base.Num Base.QcTac Gen.helpers Gen.utils Proofs.HpProofs.
Local Open Scope Qc_scope.
Import QcI.

Lemma pow10_pos p : (0 <= p)%Z -> 0 < qofZ (10 ^ p).
Proof. intros H. change 0 with (qofZ 0). apply qofZ_lt. apply Z.pow_pos_nonneg; lia. Qed.

Lemma qfloor_spec x : qofZ (qfloor x) <= x /\ x < qofZ (qfloor x) + 1.
Proof.
  unfold qfloor. destruct (floor_spec x) as [A B]. rewrite inject_Z_plus in B. change (inject_Z 1) with 1%Q in B.
  split; unfold Qcle, Qclt; rewrite ?this_plus, !this_qofZ; change (this 1) with 1%Q; lra.
Qed.

(* floor_with_precision: rounds down, by less than one precision step, to a multiple of the step *)
Theorem fwp_spec x p : (0 <= p)%Z ->
  let r := floor_with_precision QcNum x p in
  r <= x /\ x - / qofZ (10 ^ p) < r /\ r * qofZ (10 ^ p) = qofZ (qfloor (x * qofZ (10 ^ p))).
Proof.
  intros Hp. unfold floor_with_precision. cbn [div mul ofZ floorZ QcNum T]. cbv zeta.
  set (Tn := qofZ (10 ^ p)). pose proof (pow10_pos p Hp) as HT. fold Tn in HT.
  destruct (qfloor_spec (x * Tn)) as [F1 F2]. set (f := qofZ (qfloor (x * Tn))) in *.
  assert (HTn : Tn <> 0) by (intros E; rewrite E in HT; discriminate HT).
  assert (Hi : 0 < / Tn) by (unfold Qclt in *; rewrite this_inv; change (this 0) with 0%Q in *; apply Qinv_lt_0_compat; exact HT).
  assert (E1 : f / Tn = f * / Tn) by reflexivity.
  assert (E2 : Tn * / Tn = 1) by (field; exact HTn).
  assert (E3 : x * Tn * / Tn = x) by (field; exact HTn).
  repeat split.
  - rewrite E1. clear E1. set (i := / Tn) in *. clearbody i. clearbody f. clearbody Tn. qc_arith. nra.
  - rewrite E1. clear E1. set (i := / Tn) in *. clearbody i. clearbody f. clearbody Tn. qc_arith. nra.
  - field. exact HTn.
Qed.

Lemma inv_pos x : 0 < x -> 0 < / x.
Proof. intros H. unfold Qclt in *. rewrite this_inv. change (this 0) with 0%Q in *. apply Qinv_lt_0_compat. exact H. Qed.
Lemma pos_neq0 x : 0 < x -> x <> 0.
Proof. intros H E. rewrite E in H. discriminate H. Qed.

Definition net_size (cap fee : Qc) : Qc := if qeqb fee (qofZ 0) then cap else cap * (qofZ 1 - fee * qofZ 3).

Lemma size_to_qty_unfold cap price prec fee :
  size_to_qty QcNum cap price prec fee = Val (floor_with_precision QcNum (net_size cap fee / price) prec).
Proof.
  unfold size_to_qty, net_size. cbn [isnan eqb mul sub div ofZ QcNum T orb negb].
  destruct (qeqb fee (qofZ 0)); reflexivity.
Qed.

(* size_to_qty: affordable including fees, rounded down by less than one precision step *)
Theorem size_to_qty_spec cap price prec fee : 0 <= cap -> 0 < price -> 0 <= fee -> (0 <= prec)%Z ->
  exists q, size_to_qty QcNum cap price prec fee = Val q /\
    q * price * (1 + fee) <= cap /\ q * price <= cap /\
    q <= net_size cap fee / price /\ net_size cap fee / price - / qofZ (10 ^ prec) < q.
Proof.
  intros Hc Hp Hf Hprec. rewrite size_to_qty_unfold. eexists. split; [reflexivity|].
  destruct (fwp_spec (net_size cap fee / price) prec Hprec) as (R1 & R2 & _).
  set (q := floor_with_precision QcNum (net_size cap fee / price) prec) in *.
  split; [|split; [|split; assumption]].
  - assert (Hq : q * price <= net_size cap fee).
    { assert (E : net_size cap fee / price * price = net_size cap fee) by (field; apply pos_neq0; exact Hp).
      set (s := net_size cap fee / price) in *. clearbody s. rewrite <- E. clear E. clearbody q. qc_arith. nra. }
    unfold net_size in Hq. destruct (qeqb_spec fee (qofZ 0)) as [E|NE].
    + rewrite E. change (qofZ 0) with 0. clearbody q. qc_arith. nra.
    + change (qofZ 1) with 1 in Hq. assert (E3 : qofZ 3 = 1 + 1 + 1) by (apply Qc_is_canon; reflexivity). rewrite E3 in Hq.
      clearbody q. qc_arith. nra.
  - assert (Hq : q * price <= net_size cap fee).
    { assert (E : net_size cap fee / price * price = net_size cap fee) by (field; apply pos_neq0; exact Hp).
      set (s := net_size cap fee / price) in *. clearbody s. rewrite <- E. clear E. clearbody q. qc_arith. nra. }
    unfold net_size in Hq. destruct (qeqb_spec fee (qofZ 0)) as [E|NE]; [exact Hq|].
    change (qofZ 1) with 1 in Hq. assert (E3 : qofZ 3 = 1 + 1 + 1) by (apply Qc_is_canon; reflexivity). rewrite E3 in Hq.
    clearbody q. qc_arith. nra.
Qed.

(* limit_stop_loss never widens the risk, never exceeds the allowed percentage, stays on the losing side *)
Theorem limit_stop_loss_spec entry stop (long : bool) maxp : 0 <= entry -> 0 <= maxp ->
  let r := limit_stop_loss QcNum entry stop (if long then "long" else "short")%string maxp in
  let dist := if long then entry - r else r - entry in
  0 <= dist /\ dist <= qabs (entry - stop) /\ dist <= entry * (maxp / qofZ 100).
Proof.
  intros He Hm. unfold limit_stop_loss, nmin. cbn [nabs sub add mul div ofZ ltb QcNum T]. cbv zeta.
  set (risk := qabs (entry - stop)). set (mx := entry * (maxp / qofZ 100)).
  assert (Hr : 0 <= risk).
  { subst risk. unfold qabs. destruct (qltb_spec (entry - stop) 0); qc_arith; lra. }
  assert (Hmx : 0 <= mx).
  { subst mx. assert (E : maxp / qofZ 100 = maxp * / qofZ 100) by reflexivity. rewrite E.
    assert (0 < / qofZ 100) by (apply inv_pos; reflexivity). set (i := / qofZ 100) in *. clearbody i.
    assert (Hmi : 0 <= maxp * i) by (qc_arith; nra). set (mi := maxp * i) in *. clearbody mi. qc_arith. nra. }
  clearbody risk mx.
  destruct long; cbn [String.eqb Ascii.eqb Bool.eqb negb andb orb]; destruct (qltb_spec mx risk); repeat split; qc_arith; lra.
Qed.

Lemma qabs_pos x : x <> 0 -> 0 < qabs x.
Proof.
  intros H. unfold qabs. destruct (qltb_spec x 0) as [A|A]; [qc_arith; lra|].
  unfold Qclt, Qcle in *. apply neq_Q in H. change (this 0) with 0%Q in *. lra.
Qed.

(* risk_to_qty: never risks more than the requested share of capital, never costs more than the capital.
   (fee rates above 1/3 would make the 3x-fee reserve negative and are excluded) *)
Theorem risk_to_qty_spec cap risk entry stop prec fee :
  0 <= cap -> 0 <= risk -> 0 < entry -> entry <> stop -> 0 <= fee -> fee * qofZ 3 <= 1 -> (0 <= prec)%Z ->
  exists q, risk_to_qty QcNum cap risk entry stop prec fee = Val q /\
    q * qabs (entry - stop) <= risk / qofZ 100 * cap /\ q * entry * (1 + fee) <= cap.
Proof.
  intros Hc Hr He Hne Hf Hf3 Hp. unfold risk_to_qty. cbn [nabs sub mul div ofZ eqb QcNum T]. cbv zeta.
  set (rpq := qabs (entry - stop)).
  assert (Hrpq : 0 < rpq).
  { apply qabs_pos. intros E. apply Hne. apply Qc_is_canon. apply eq_Q in E. rewrite this_minus in E. change (this 0) with 0%Q in E. lra. }
  unfold risk_to_size. cbn [eqb div mul ofZ QcNum T].
  destruct (qeqb_spec rpq (qofZ 0)) as [E0|_]; [exfalso; rewrite E0 in Hrpq; discriminate Hrpq|].
  cbn [bindR]. set (rp := risk / qofZ 100). set (temp := rp * cap / rpq * entry).
  assert (Hrp : 0 <= rp).
  { subst rp. assert (E : risk / qofZ 100 = risk * / qofZ 100) by reflexivity. rewrite E.
    assert (0 < / qofZ 100) by (apply inv_pos; reflexivity). set (i := / qofZ 100) in *. clearbody i. qc_arith. nra. }
  assert (Hrc : 0 <= rp * cap) by (clearbody rp; qc_arith; nra).
  assert (Hir : 0 < / rpq) by (apply inv_pos; exact Hrpq).
  assert (Ht : 0 <= temp).
  { subst temp. assert (E : rp * cap / rpq * entry = (rp * cap) * / rpq * entry) by reflexivity. rewrite E.
    set (a := rp * cap) in *. set (i := / rpq) in *. clearbody a i.
    assert (0 <= a * i) by (qc_arith; nra). set (b := a * i) in *. clearbody b. qc_arith. nra. }
  assert (Ete : temp * / entry * rpq = rp * cap).
  { subst temp. field. split; apply pos_neq0; assumption. }
  set (size := nmin (N := QcNum) temp cap).
  assert (Hs : 0 <= size /\ size <= temp /\ size <= cap).
  { subst size. unfold nmin. cbn [ltb QcNum]. destruct (qltb_spec cap temp); repeat split; qc_arith; lra. }
  destruct Hs as (S0 & S1 & S2).
  assert (Hie : 0 < / entry) by (apply inv_pos; exact He).
  assert (E3 : qofZ 3 = 1 + 1 + 1) by (apply Qc_is_canon; reflexivity).
  destruct (qeqb_spec fee (qofZ 0)) as [Ef|Nf]; cbn [negb].
  - (* no fee *)
    destruct (size_to_qty_spec size entry prec fee S0 He Hf Hp) as (q & Eq & Q1 & Q2 & Q3 & _).
    rewrite Eq. cbn [bindR]. exists q. split; [reflexivity|].
    unfold net_size in Q3. destruct (qeqb_spec fee (qofZ 0)) as [_|X]; [|contradiction].
    assert (Q3' : q <= size * / entry) by exact Q3.
    split.
    + rewrite <- Ete. clearbody size temp rpq rp. set (i := / entry) in *. clearbody i.
      assert (A : q * rpq <= size * i * rpq) by (qc_arith; nra).
      assert (B : size * i * rpq <= temp * i * rpq).
      { assert (0 <= i * rpq) by (qc_arith; nra). set (j := i * rpq) in *.
        assert (size * i * rpq = size * j) by (subst j; ring). assert (temp * i * rpq = temp * j) by (subst j; ring).
        rewrite H0, H1. clearbody j. qc_arith. nra. }
      qc_arith. lra.
    + clearbody size. qc_arith. lra.
  - (* with fee: the reserve is applied twice *)
    set (k := qofZ 1 - fee * qofZ 3).
    assert (Hk : 0 <= k /\ k <= 1).
    { subst k. change (qofZ 1) with 1. split; qc_arith; try lra. rewrite E3 in *. qc_arith. lra. }
    destruct Hk as [K0 K1].
    assert (S4 : 0 <= size * k) by (clearbody size k; qc_arith; nra).
    destruct (size_to_qty_spec (size * k) entry prec fee S4 He Hf Hp) as (q & Eq & Q1 & Q2 & Q3 & _).
    rewrite Eq. cbn [bindR]. exists q. split; [reflexivity|].
    unfold net_size in Q3. destruct (qeqb_spec fee (qofZ 0)) as [X|_]; [contradiction|]. fold k in Q3.
    assert (Q3' : q <= size * k * k * / entry) by exact Q3.
    assert (Hkk : size * k * k <= size).
    { clearbody size k. assert (0 <= size * k /\ size * k <= size) by (split; qc_arith; nra). destruct H.
      set (u := size * k) in *. clearbody u. qc_arith. nra. }
    split.
    + rewrite <- Ete. clearbody size temp rpq rp k. set (i := / entry) in *. clearbody i.
      set (s2 := size * k * k) in *. clearbody s2.
      assert (0 <= i * rpq) by (qc_arith; nra). set (j := i * rpq) in *.
      assert (A : q * rpq <= s2 * j).
      { assert (s2 * j = s2 * i * rpq) by (subst j; ring). rewrite H0. qc_arith. nra. }
      assert (B : s2 * j <= temp * j) by (clearbody j; qc_arith; nra).
      assert (Cc : temp * i * rpq = temp * j) by (subst j; ring). rewrite Cc. clearbody j. qc_arith. lra.
    + assert (size * k <= size) by (clearbody size k; qc_arith; nra). clearbody size k. qc_arith. lra.
Qed.

(* ------------------------------------------------------------------ rounding down for live mode *)
From JV Require Import Model.Rounding.

Theorem round_decimals_down_spec x d : (0 <= d)%Z ->
  let r := round_decimals_down QcNum x d in r <= x /\ x - / qofZ (10 ^ d) < r.
Proof.
  intros Hd. unfold round_decimals_down. destruct (d =? 0)%Z eqn:E0.
  - apply Z.eqb_eq in E0. subst d. cbn [ofZ floorZ QcNum]. destruct (qfloor_spec x) as [A B].
    change (/ qofZ (10 ^ 0)) with 1.
    set (f := qofZ (qfloor x)) in *. clearbody f. split; qc_arith; lra.
  - assert (Hpos : (0 <? d)%Z = true) by (apply Z.ltb_lt; apply Z.eqb_neq in E0; lia). rewrite Hpos.
    destruct (fwp_spec x d Hd) as (A & B & _). unfold floor_with_precision in A, B. cbn [div mul ofZ floorZ QcNum T] in *. cbv zeta in *.
    split; assumption.
Qed.

Theorem round_qty_for_live_mode_spec q p : (0 <= p)%Z -> 0 <= q ->
  exists r, round_qty_for_live_mode QcNum q p = Val r /\
    ((r <= q /\ q - / qofZ (10 ^ p) < r) \/ (r = 1 / qofZ (10 ^ p) /\ round_decimals_down QcNum q p = 0)).
Proof.
  intros Hp Hq. unfold round_qty_for_live_mode. cbn [eqb ofZ div QcNum T].
  destruct (qeqb_spec (round_decimals_down QcNum q p) (qofZ 0)) as [E|NE].
  - assert (Hle : (0 <=? p)%Z = true) by (apply Z.leb_le; exact Hp). rewrite Hle.
    eexists. split; [reflexivity|]. right. split; [reflexivity|exact E].
  - eexists. split; [reflexivity|]. left. apply round_decimals_down_spec. exact Hp.
Qed.
