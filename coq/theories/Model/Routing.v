(* Model/Routing.v — hand-written models of the order-routing chains of Strategy._submit_buy_orders /
   _submit_sell_orders / _on_open_position and Broker.reduce_position_at / start_profit_at, over the GENERATED
   is_price_near (Gen/helpers.v) with the default threshold 0.00015, and of the declarative exit bookkeeping of
   Strategy._detect_and_handle_entry_and_exit_modifications / _on_open_position / _on_close_position.
   Tied to the code by harness/c10.py. *)
From Coq Require Import ZArith QArith Qcanon List Bool.
From JV Require Import Base.Num Gen.helpers Model.Spot.
Import ListNotations.
Local Open Scope Qc_scope.
Import QcI.

(* the float literal 0.00015 as the exact value of the double *)
Definition threshold (N : Num) : N := lit N 5534023222112865%Z (-65)%Z.
Definition near (N : Num) (p cur : N) : bool := is_price_near N p cur (threshold N).

Inductive routed (N : Num) := Route (sd : side) (t : otype) (qty price : N) (ro : bool) | NotAllowed | Invalid.
Arguments Route {N}. Arguments NotAllowed {N}. Arguments Invalid {N}.

(* Strategy._submit_buy_orders / _submit_sell_orders, one declared row (qty, price); cur = self.price;
   pcur = position.current_price (used by Broker.start_profit_at's validation and as the market price) *)
Definition entry_route (N : Num) (sd : side) (qty p cur pcur : N) : routed N :=
  match sd with
  | Buy =>
      if near N p cur then Route Buy Market (nabs N qty) pcur false
      else if ltb N cur p then (if ltb N p pcur then NotAllowed else Route Buy Stop (nabs N qty) p false)
      else if ltb N p cur then Route Buy Limit (nabs N qty) p false
      else Invalid
  | Sell =>
      if near N p cur then Route Sell Market (nabs N qty) pcur false
      else if ltb N p cur then (if ltb N pcur p then NotAllowed else Route Sell Stop (nabs N qty) p false)
      else if ltb N cur p then Route Sell Limit (nabs N qty) p false
      else Invalid
  end.

(* Broker.reduce_position_at(qty, price, current_price) for an open long / short position *)
Definition exit_route (N : Num) (long : bool) (qty p cur : N) : routed N :=
  let sd := if long then Sell else Buy in
  if near N p cur then Route sd Market (nabs N qty) p true
  else if (if long then ltb N cur p else ltb N p cur) then Route sd Limit (nabs N qty) p true
  else if (if long then ltb N p cur else ltb N cur p) then Route sd Stop (nabs N qty) p true
  else NotAllowed.

(* ------------------------------------------------------------------ declarative exits *)
Definition row := (Qc * Qc)%type.                     (* (qty, price) as declared *)
Definition row_eqb (a b : row) : bool := qeqb (fst a) (fst b) && qeqb (snd a) (snd b).
Fixpoint rows_eqb (a b : list row) : bool :=
  match a, b with [] , [] => true | x :: r, y :: s => row_eqb x y && rows_eqb r s | _, _ => false end.
Definition decl_eqb (a b : option (list row)) : bool :=
  match a, b with None, None => true | Some x, Some y => rows_eqb x y | _, _ => false end.

(* one exit kind (stop-loss or take-profit) of one position *)
Record exits := { decl : option (list row);          (* self.stop_loss, as the strategy last assigned it *)
                  snap : option (list row);          (* self._stop_loss: what the resting orders were built from *)
                  resting : list (nat * row);        (* active orders tagged with this kind: id, (|qty|, price) *)
                  next_id : nat;
                  is_open : bool }.

Definition fresh_orders (n : nat) (rs : list row) : list (nat * row) := combine (seq n (length rs)) rs.

(* the stop-loss / take-profit block of _detect_and_handle_entry_and_exit_modifications *)
Definition detect (s : exits) : exits :=
  if negb (is_open s) then s
  else match decl s with
       | None => s
       | Some d =>
           if decl_eqb (decl s) (snap s) then s
           else {| decl := decl s; snap := Some d; resting := fresh_orders (next_id s) d;
                   next_id := (next_id s + length d)%nat; is_open := true |}
       end.

(* the strategy assigns self.stop_loss in any hook *)
Definition set_decl (s : exits) (d : option (list row)) : exits :=
  {| decl := d; snap := snap s; resting := resting s; next_id := next_id s; is_open := is_open s |}.

(* an order of this kind is executed or cancelled individually *)
Definition drop (s : exits) (id : nat) : exits :=
  {| decl := decl s; snap := snap s; resting := filter (fun o => negb (Nat.eqb (fst o) id)) (resting s);
     next_id := next_id s; is_open := is_open s |}.

(* _on_close_position -> _execute_cancel: cancel_all_orders + _reset, then the strategy's on_close hook (may assign), then detect (closed: nothing) *)
Definition close_pos (s : exits) (after_hook : option (list row) -> option (list row)) : exits :=
  {| decl := after_hook None; snap := None; resting := []; next_id := next_id s; is_open := false |}.

(* _on_open_position: orders for the rows of _stop_loss when self.stop_loss is set, the on_open hook, then detect *)
Definition open_pos (s : exits) (hook : option (list row) -> option (list row)) : exits :=
  let built := match decl s, snap s with
               | Some _, Some sn => fresh_orders (next_id s) sn
               | _, _ => []
               end in
  detect {| decl := hook (decl s); snap := snap s; resting := built; next_id := (next_id s + length built)%nat; is_open := true |}.

(* _execute_long / _execute_short: `if self.stop_loss is not None: ... self._prepare_stop_loss()` copies the declaration (position
   still closed); without a declaration the copy of an earlier one stays *)
Definition prepare (s : exits) : exits :=
  {| decl := decl s; snap := match decl s with Some d => Some d | None => snap s end; resting := resting s; next_id := next_id s; is_open := is_open s |}.

Inductive xop := SetDecl (d : option (list row)) | Detect | Drop (id : nat) | DropNth (k : nat) | ClosePos (d : option (list row))
               | OpenPos (d : option (option (list row))) | Prepare.

Definition xstep (s : exits) (o : xop) : exits :=
  match o with
  | SetDecl d => set_decl s d
  | Detect => detect s
  | Drop id => drop s id
  | DropNth k => match nth_error (resting s) k with Some o => drop s (fst o) | None => s end
  | ClosePos d => if is_open s then close_pos s (fun _ => d) else s
  | OpenPos d => if is_open s then s else open_pos s (fun old => match d with Some x => x | None => old end)
  | Prepare => if is_open s then s else prepare s
  end.

Definition xinit : exits := {| decl := None; snap := None; resting := []; next_id := 0; is_open := false |}.
