(* Model/Liquidation.v — hand-written model of backtest_mode._check_for_liquidations over the GENERATED
   liquidation_price / bankruptcy_price / candle_includes_price, acting on the futures account model. *)
From Coq Require Import ZArith QArith Qcanon List Bool String.
From JV Require Import Base.Num Gen.candle Gen.position Model.Spot Model.Futures.
Import ListNotations.
Local Open Scope Qc_scope.
Import QcI.

Definition pos_type (p : fpos) : string := if qltb 0 (p_qty p) then "long"%string else if qltb (p_qty p) 0 then "short"%string else "close"%string.

(* the order _check_for_liquidations creates, if any *)
Definition liquidation_order (mode : string) (leverage : Qc) (p : fpos) (k : candle QcNum) (id sym : nat) : option forder :=
  if negb (String.eqb mode "isolated") then None
  else match pos_liquidation_price QcNum (String.eqb (pos_type p) "close") mode (pos_type p) (p_entry p) leverage with
       | Val lp =>
           if candle_includes_price QcNum k lp then
             match pos_bankruptcy_price QcNum (pos_type p) (p_entry p) leverage with
             | Val bp => Some {| f_id := id; f_sym := sym; f_side := if qltb 0 (p_qty p) then Sell else Buy; f_typ := Market;
                                 f_qty := qabs (p_qty p); f_price := bp; f_ro := true; f_status := Active |}
             | _ => None
             end
           else None
       | _ => None
       end.

(* store.orders.add_order(order); total_liquidations += 1; order.execute() *)
Definition check_liquidation (mode : string) (s : fut) (sym : nat) (k : candle QcNum) (id : nat) : fut * bool :=
  match liquidation_order mode (lev s) (posn s sym) k id sym with
  | Some o => (fexecute (fst (fsubmit s o)) id, true)
  | None => (s, false)
  end.
