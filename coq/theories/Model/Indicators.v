(* Model/Indicators.v — textbook definitions of the core indicators as Mealy machines over exact rationals (C13/C14/C15), in the
   conventions of jesse/indicators/*.py (where the NaN prefix ends, how recursive smoothers are seeded).  None = NaN.
   Every series is produced by `mealy`: an initial state and a step (state, input) -> (state, output).  Tied to the
   implementation by harness/ind.py (values compared with a relative tolerance; the implementation works in binary64). *)
From Coq Require Import ZArith QArith Qcanon List Bool Arith.
From JV Require Import Base.Num Model.CandleStore Model.CandleView.
Import ListNotations.
Local Open Scope Qc_scope.
Import QcI.

Section Mealy.
Context {X Y S : Type}.
Fixpoint mealy (step : S -> X -> S * Y) (s : S) (xs : list X) : list Y :=
  match xs with [] => [] | x :: r => let '(s', y) := step s x in y :: mealy step s' r end.
End Mealy.

Definition series := list (option Qc).
Definition qofnat (n : nat) : Qc := Q2Qc (inject_Z (Z.of_nat n)).
Definition qsum (l : list Qc) : Qc := fold_left Qcplus l 0.
Definition mean (l : list Qc) : Qc := qsum l / qofnat (length l).
Definition qmaxl (d : Qc) (l : list Qc) : Qc := fold_left (fun m x => if qltb m x then x else m) l d.
Definition qminl (d : Qc) (l : list Qc) : Qc := fold_left (fun m x => if qltb x m then x else m) l d.
Definition lastn {A} (n : nat) (l : list A) : list A := skipn (length l - n) l.
Definition dflt_kc : kc := {| k_ts := 0%Z; k_o := 0; k_c := 0; k_h := 0; k_l := 0; k_v := 0 |}.

(* ---------------------------------------------------------------- trailing-window indicators: state = the last w inputs *)
Definition windowed {A} (w : nat) (f : list A -> Qc) : list A -> series :=
  mealy (fun (buf : list A) x => let buf' := lastn w (buf ++ [x]) in (buf', if Nat.ltb (length buf') w then None else Some (f buf'))) [].

Definition sma (p : nat) : list Qc -> series := windowed p mean.
(* weights 1..p, newest heaviest *)
Definition wsum (l : list Qc) : Qc := fst (fold_left (fun acc x => (fst acc + qofnat (snd acc) * x, S (snd acc))) l (0, 1%nat)).
Definition wma (p : nat) : list Qc -> series := windowed p (fun l => wsum l / qofnat (p * (p + 1) / 2)).
(* triangular weights 1,2,..,m,..,2,1 *)
Definition tri_weights (p : nat) : list nat :=
  let mid := (p / 2)%nat in if Nat.eqb (p mod 2) 0 then seq 1 mid ++ rev (seq 1 mid) else seq 1 (mid + 1) ++ rev (seq 1 mid).
Definition dot (ws : list nat) (l : list Qc) : Qc := qsum (map (fun wx => qofnat (fst wx) * snd wx) (combine ws l)).
Definition trima (p : nat) : list Qc -> series :=
  windowed p (fun l => dot (tri_weights p) l / qofnat (fold_left Nat.add (tri_weights p) 0%nat)).
Definition roc (p : nat) : list Qc -> series := windowed (S p) (fun l => (last l 0 / hd 0 l - 1) * qofnat 100).
Definition mom (p : nat) : list Qc -> series := windowed (S p) (fun l => last l 0 - hd 0 l).
(* population variance of the window *)
Definition var (p : nat) : list Qc -> series := windowed p (fun l => mean (map (fun x => x * x) l) - mean l * mean l).

Definition donchian_upper (p : nat) : list kc -> series := windowed p (fun l => qmaxl (k_h (hd dflt_kc l)) (map k_h l)).
Definition donchian_lower (p : nat) : list kc -> series := windowed p (fun l => qminl (k_l (hd dflt_kc l)) (map k_l l)).
Definition donchian_middle (p : nat) : list kc -> series :=
  windowed p (fun l => (qmaxl (k_h (hd dflt_kc l)) (map k_h l) + qminl (k_l (hd dflt_kc l)) (map k_l l)) / qofnat 2).
(* Williams %R: (highest high - close) / (highest high - lowest low) * -100, 0 when the range is empty *)
Definition willr (p : nat) : list kc -> series :=
  windowed p (fun l => let hh := qmaxl (k_h (hd dflt_kc l)) (map k_h l) in let ll := qminl (k_l (hd dflt_kc l)) (map k_l l) in
                       if qeqb (hh - ll) 0 then 0 else (hh - k_c (last l dflt_kc)) / (hh - ll) * - qofnat 100).
(* fast stochastic %K *)
Definition stoch_k (p : nat) : list kc -> series :=
  windowed p (fun l => let hh := qmaxl (k_h (hd dflt_kc l)) (map k_h l) in let ll := qminl (k_l (hd dflt_kc l)) (map k_l l) in
                       if qeqb (hh - ll) 0 then 0 else (k_c (last l dflt_kc) - ll) / (hh - ll) * qofnat 100).
Definition typprice : list kc -> list Qc := map (fun k => (k_h k + k_l k + k_c k) / qofnat 3).
Definition medprice : list kc -> list Qc := map (fun k => (k_h k + k_l k) / qofnat 2).

(* ---------------------------------------------------------------- recursive smoothers *)
(* seeded with the mean of the first p values at index p-1 (jesse's ema, atr); state = (inputs seen while seeding, previous value) *)
Definition seeded (p : nat) (step : Qc -> Qc -> Qc) : list Qc -> series :=
  mealy (fun (st : list Qc * option Qc) x =>
           match snd st with
           | Some prev => let v := step prev x in ((fst st, Some v), Some v)
           | None => let buf := fst st ++ [x] in
                     if Nat.eqb (length buf) p then ((buf, Some (mean buf)), Some (mean buf)) else ((buf, None), None)
           end) ([], None).
Definition ema (p : nat) : list Qc -> series :=
  let a := qofnat 2 / qofnat (p + 1) in seeded p (fun prev x => a * x + (1 - a) * prev).
(* seeded with the first value (the _ema kernels of dema, tema, macd; wilders) *)
Definition from_first (step : Qc -> Qc -> Qc) : list Qc -> list Qc :=
  mealy (fun (st : option Qc) x => let v := match st with Some prev => step prev x | None => x end in (Some v, v)) None.
Definition ema0 (p : nat) : list Qc -> list Qc := let a := qofnat 2 / qofnat (p + 1) in from_first (fun prev x => a * x + (1 - a) * prev).
Definition wilders (p : nat) : list Qc -> list Qc := from_first (fun prev x => (prev * qofnat (p - 1) + x) / qofnat p).
Definition map2 {A B C} (f : A -> B -> C) (l : list A) (m : list B) : list C := map (fun ab => f (fst ab) (snd ab)) (combine l m).
Definition dema (p : nat) (xs : list Qc) : list Qc := let e1 := ema0 p xs in map2 (fun a b => qofnat 2 * a - b) e1 (ema0 p e1).
Definition tema (p : nat) (xs : list Qc) : list Qc :=
  let e1 := ema0 p xs in let e2 := ema0 p e1 in let e3 := ema0 p e2 in map2 (fun ab c => fst ab - snd ab + c) (map2 (fun a b => (qofnat 3 * a, qofnat 3 * b)) e1 e2) e3.
Definition macd_line (f s : nat) (xs : list Qc) : list Qc := map2 Qcminus (ema0 f xs) (ema0 s xs).
Definition macd_signal (f s g : nat) (xs : list Qc) : list Qc := ema0 g (macd_line f s xs).
Definition macd_hist (f s g : nat) (xs : list Qc) : list Qc := map2 Qcminus (macd_line f s xs) (macd_signal f s g xs).

(* true range and ATR (Wilder's smoothing seeded with the mean of the first p true ranges) *)
Definition true_range : list kc -> list Qc :=
  mealy (fun (prev : option Qc) k =>
           let hl := k_h k - k_l k in
           (Some (k_c k), match prev with
                          | None => hl
                          | Some pc => let a := qabs (k_h k - pc) in let b := qabs (k_l k - pc) in
                                       let m := if qltb hl a then a else hl in if qltb m b then b else m
                          end)) None.
Definition atr (p : nat) (ks : list kc) : series := seeded p (fun prev x => (prev * qofnat (p - 1) + x) / qofnat p) (true_range ks).

(* RSI with Wilder's smoothing of gains and losses, first value at index p from the plain averages of the first p changes *)
Definition rsi_value (g l : Qc) : Qc := if qeqb l 0 then qofnat 100 else qofnat 100 - qofnat 100 / (1 + g / l).
Definition rsi (p : nat) : list Qc -> series :=
  mealy (fun (st : option Qc * list Qc * option (Qc * Qc)) x =>
           let '(prev, diffs, avg) := st in
           match prev with
           | None => ((Some x, diffs, avg), None)
           | Some px =>
               let d := x - px in
               let gain := if qltb 0 d then d else 0 in let loss := if qltb d 0 then - d else 0 in
               match avg with
               | Some (ag, al) =>
                   let ag' := (ag * qofnat (p - 1) + gain) / qofnat p in let al' := (al * qofnat (p - 1) + loss) / qofnat p in
                   ((Some x, diffs, Some (ag', al')), Some (rsi_value ag' al'))
               | None =>
                   let diffs' := diffs ++ [d] in
                   if Nat.eqb (length diffs') p then
                     let ag := qsum (map (fun d => if qltb 0 d then d else 0) diffs') / qofnat p in
                     let al := qsum (map (fun d => if qltb 0 d then 0 else - d) diffs') / qofnat p in
                     ((Some x, diffs', Some (ag, al)), Some (rsi_value ag al))
                   else ((Some x, diffs', None), None)
               end
           end) (None, [], None).

(* on-balance volume *)
Definition obv : list kc -> list Qc :=
  mealy (fun (st : option (Qc * Qc)) k =>
           match st with
           | None => (Some (k_c k, k_v k), k_v k)
           | Some (pc, acc) => let acc' := if qltb pc (k_c k) then acc + k_v k else if qltb (k_c k) pc then acc - k_v k else acc in
                               (Some (k_c k, acc'), acc')
           end) None.

(* money flow index: typical price * volume counted as positive (negative) flow when the typical price rose (fell) against the previous
   candle, the first candle has no flow; 100 - 100 / (1 + sum of positive flows / sum of negative flows) over the last p candles
   (100 when no negative flow), first value at index p-1 (jesse/indicators/mfi.py) *)
Definition mfi (p : nat) : list kc -> series :=
  mealy (fun (st : option Qc * list (Qc * Qc)) k =>
           let tp := (k_h k + k_l k + k_c k) / qofnat 3 in
           let rmf := tp * k_v k in
           let fl := match fst st with
                     | None => (0, 0)
                     | Some ptp => (if qltb ptp tp then rmf else 0, if qltb tp ptp then rmf else 0)
                     end in
           let buf := lastn p (snd st ++ [fl]) in
           ((Some tp, buf), if Nat.ltb (length buf) p then None else Some (rsi_value (qsum (map fst buf)) (qsum (map snd buf))))) (None, []).

(* Keltner channel with the default moving average (EMA of the close) and Wilder's ATR of the same period (jesse/indicators/keltner.py) *)
Definition opt2 (f : Qc -> Qc -> Qc) (a b : option Qc) : option Qc := match a, b with Some x, Some y => Some (f x y) | _, _ => None end.
Definition keltner_middle (p : nat) (ks : list kc) : series := ema p (map k_c ks).
Definition keltner_upper (p : nat) (m : Qc) (ks : list kc) : series := map2 (opt2 (fun e a => e + a * m)) (ema p (map k_c ks)) (atr p ks).
Definition keltner_lower (p : nat) (m : Qc) (ks : list kc) : series := map2 (opt2 (fun e a => e - a * m)) (ema p (map k_c ks)) (atr p ks).

(* ---------------------------------------------------------------- the shape of every public indicator function (C14) *)
(* `candles = slice_candles(candles, sequential)`; res = F(candles); `return res if sequential else res[-1]` *)
Definition slice_candles {A} (warmup : nat) (sequential : bool) (cs : list A) : list A :=
  if negb sequential && Nat.ltb warmup (length cs) then lastn warmup cs else cs.
Inductive ind_result (Y : Type) := Sequential (ys : list Y) | Single (y : option Y).
Arguments Sequential {Y}. Arguments Single {Y}.
Definition indicator {A Y} (warmup : nat) (F : list A -> list Y) (sequential : bool) (cs : list A) : ind_result Y :=
  let res := F (slice_candles warmup sequential cs) in
  if sequential then Sequential res else Single (match rev res with y :: _ => Some y | [] => None end).
