(* Model/Metrics.v — the trade-list metrics of services/metrics.trades as plain definitions over exact rationals (C16), and the
   maximum drawdown of an equity series.  A trade is (PnL, fee, is_long).  Tied to the code by harness/c16.py. *)
From Coq Require Import ZArith QArith Qcanon List Bool Arith.
From JV Require Import Base.Num Model.Indicators.
Import ListNotations.
Local Open Scope Qc_scope.
Import QcI.

Record mtrade := { m_pnl : Qc; m_fee : Qc; m_long : bool }.

Definition wins (l : list mtrade) := filter (fun t => qltb 0 (m_pnl t)) l.
Definition losses (l : list mtrade) := filter (fun t => qltb (m_pnl t) 0) l.
Definition evens (l : list mtrade) := filter (fun t => qeqb (m_pnl t) 0) l.
Definition sum_pnl (l : list mtrade) : Qc := qsum (map m_pnl l).
Definition total (l : list mtrade) : nat := length l.
Definition net_profit := sum_pnl.
Definition gross_profit (l : list mtrade) : Qc := sum_pnl (wins l).
Definition gross_loss (l : list mtrade) : Qc := sum_pnl (losses l).
Definition fee_sum (l : list mtrade) : Qc := qsum (map m_fee l).
Definition longs (l : list mtrade) : nat := length (filter m_long l).
Definition shorts (l : list mtrade) : nat := length (filter (fun t => negb (m_long t)) l).
Definition win_rate (l : list mtrade) : Qc :=
  match wins l with [] => 0 | _ => qofnat (length (wins l)) / qofnat (length (wins l) + length (losses l)) end.
Definition longs_percentage (l : list mtrade) : Qc := qofnat (longs l) / qofnat (longs l + shorts l) * qofnat 100.
Definition shorts_percentage (l : list mtrade) : Qc := qofnat 100 - longs_percentage l.
Definition average_win (l : list mtrade) : Qc := gross_profit l / qofnat (length (wins l)).
Definition average_loss (l : list mtrade) : Qc := qabs (gross_loss l / qofnat (length (losses l))).
(* (0 if there is no winner else average_win) * win_rate - (0 if there is no loser else average_loss) * (1 - win_rate) *)
Definition expectancy (l : list mtrade) : Qc :=
  (match wins l with [] => 0 | _ => average_win l end) * win_rate l - (match losses l with [] => 0 | _ => average_loss l end) * (1 - win_rate l).
Definition largest_win (l : list mtrade) : Qc := match wins l with [] => 0 | t :: r => qmaxl (m_pnl t) (map m_pnl r) end.
Definition largest_loss (l : list mtrade) : Qc := match losses l with [] => 0 | t :: r => qminl (m_pnl t) (map m_pnl r) end.
Definition net_profit_percentage (start : Qc) (l : list mtrade) : Qc := net_profit l / start * qofnat 100.

(* streaks: runs of strictly positive / strictly negative PnL; a break-even trade ends either run.
   state = (current signed run, longest winning run, longest losing run) *)
Definition streak_step (st : Z * nat * nat) (t : mtrade) : Z * nat * nat :=
  let '(cur, w, lo) := st in
  let cur' := if qltb 0 (m_pnl t) then (if Z.ltb 0 cur then cur + 1 else 1)%Z
              else if qltb (m_pnl t) 0 then (if Z.ltb cur 0 then cur - 1 else -1)%Z else 0%Z in
  (cur', Nat.max w (Z.to_nat cur'), Nat.max lo (Z.to_nat (- cur'))).
Definition streaks (l : list mtrade) : Z * nat * nat := fold_left streak_step l (0%Z, 0%nat, 0%nat).

(* maximum drawdown of a (positive) equity series: min over i of equity_i / (running maximum up to i) - 1 *)
Definition drawdowns : list Qc -> list Qc :=
  mealy (fun (peak : option Qc) x => let pk := match peak with Some p => if qltb p x then x else p | None => x end in (Some pk, x / pk - 1)) None.
Definition max_drawdown (eq : list Qc) : Qc := match drawdowns eq with [] => 0 | d :: r => qminl d r end.
