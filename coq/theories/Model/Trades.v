(* Model/Trades.v — hand-written model of what one symbol's fills do in a futures backtest session (exact rationals):
     Order.execute -> ClosedTrades.add_executed_order (the fill is recorded in the trade being built),
     Position._on_executed_order (backtest branch): charge_fee(qty * price), then Futures.position_fill
       (_mutating_open / close / increase / reduce, oversize reduce-only, flip),
     ClosedTrades.open_trade / close_trade, Position._update_qty's previous_qty,
     Strategy._on_updated_position's classification of the fill into the four hooks,
     ClosedTrade.qty / entry_price / exit_price / pnl (helpers.estimate_PNL with fee).
   Tied to the code by harness/c06.py (driver of the real objects). *)
From Coq Require Import ZArith QArith Qcanon List Bool.
From JV Require Import Base.Num Model.Spot Model.Futures.
Import ListNotations.
Local Open Scope Qc_scope.
Import QcI.

Record fill := { fl_sq : Qc (* signed quantity: buy > 0, sell < 0 *); fl_price : Qc; fl_ro : bool }.

Inductive hook := HOpen | HClose | HInc | HRed.

(* the trade being built / a closed trade: rows (|qty|, price) of buy_orders and sell_orders; the type is set by open_trade *)
Record trade := { t_opened : bool; t_short : bool; t_buys : list (Qc * Qc); t_sells : list (Qc * Qc) }.
Definition empty_trade : trade := {| t_opened := false; t_short := false; t_buys := []; t_sells := [] |}.

Record tstate := {
  ts_qty : Qc; ts_entry : Qc; ts_prev : Qc;       (* Position.qty, entry_price, previous_qty *)
  ts_wallet : Qc;
  ts_cur : trade;
  ts_closed : list trade;                          (* store.completed_trades.trades *)
  ts_hooks : list (hook * Qc) }.                   (* hooks fired so far, with the position size the strategy sees *)

Definition tinit (balance : Qc) : tstate :=
  {| ts_qty := 0; ts_entry := 0; ts_prev := 0; ts_wallet := balance; ts_cur := empty_trade; ts_closed := []; ts_hooks := [] |}.

Definition record_fill (t : trade) (f : fill) : trade :=
  let row := (qabs (fl_sq f), fl_price f) in
  if qltb (fl_sq f) 0 then {| t_opened := t_opened t; t_short := t_short t; t_buys := t_buys t; t_sells := t_sells t ++ [row] |}
  else {| t_opened := t_opened t; t_short := t_short t; t_buys := t_buys t ++ [row]; t_sells := t_sells t |}.

Definition open_trade (t : trade) (short : bool) : trade :=
  {| t_opened := true; t_short := short; t_buys := t_buys t; t_sells := t_sells t |}.

(* Strategy._on_updated_position: before = previous_qty, after = qty (min_qty = 0 in backtests) *)
Definition classify (before after : Qc) : hook :=
  if qeqb before 0 && negb (qeqb after 0) then HOpen           (* abs(before) <= 0 < abs(after) *)
  else if negb (qeqb before 0) && qeqb after 0 then HClose      (* abs(before) > 0 >= abs(after) *)
  else if qltb (qabs before) (qabs after) then HInc
  else HRed.

Inductive kind := KOpen | KClose | KInc | KNoop | KOversize | KFlip | KRed.
Definition kind_of (q sq : Qc) (ro : bool) : kind :=
  if qeqb q 0 then KOpen
  else if qeqb (q + sq) 0 then KClose
  else if qltb 0 (q * sq) then (if ro then KNoop else KInc)
  else if qltb (qabs q) (qabs sq) then (if ro then KOversize else KFlip)
  else KRed.

(* one executed order; fee = the exchange's fee rate *)
Definition tstep (fee : Qc) (s : tstate) (f : fill) : tstate :=
  let q := ts_qty s in
  let cur1 := record_fill (ts_cur s) f in                                        (* add_executed_order *)
  let w1 := ts_wallet s - qabs (fl_sq f * fl_price f) * fee in                   (* charge_fee(qty * price) *)
  let p := {| p_qty := q; p_entry := ts_entry s; p_cur := fl_price f |} in
  let '(p', pnl) := position_fill p (fl_sq f) (fl_price f) (fl_ro f) in
  let w2 := w1 + pnl in
  let k := kind_of q (fl_sq f) (fl_ro f) in
  (* trades and previous_qty *)
  let '(cur2, closed2, prev2) :=
    match k with
    | KOpen => (open_trade cur1 (qltb (fl_sq f) 0), ts_closed s, q)
    | KClose | KOversize => (empty_trade, ts_closed s ++ [cur1], q)
    | KFlip => (open_trade empty_trade (qltb (p_qty p') 0), ts_closed s ++ [cur1], 0)   (* close (qty -> 0), then open *)
    | KNoop => (cur1, ts_closed s, ts_prev s)                                      (* nothing touched the quantity *)
    | KInc | KRed => (cur1, ts_closed s, q)
    end in
  {| ts_qty := p_qty p'; ts_entry := p_entry p'; ts_prev := prev2; ts_wallet := w2; ts_cur := cur2; ts_closed := closed2;
     ts_hooks := ts_hooks s ++ [(classify prev2 (p_qty p'), p_qty p')] |}.

Definition trun (fee : Qc) (balance : Qc) (fs : list fill) : tstate := fold_left (tstep fee) fs (tinit balance).

(* ClosedTrade.qty / entry_price / exit_price / pnl *)
Fixpoint qsum (l : list (Qc * Qc)) : Qc := match l with [] => 0 | r :: t => fst r + qsum t end.
Fixpoint notional (l : list (Qc * Qc)) : Qc := match l with [] => 0 | r :: t => fst r * snd r + notional t end.
Definition t_entries (t : trade) := if t_short t then t_sells t else t_buys t.
Definition t_exits (t : trade) := if t_short t then t_buys t else t_sells t.
Definition t_qty (t : trade) : Qc := qsum (t_entries t).
Definition t_entry_price (t : trade) : Qc := notional (t_entries t) / qsum (t_entries t).
Definition t_exit_price (t : trade) : Qc := notional (t_exits t) / qsum (t_exits t).
(* estimate_PNL(qty, entry, exit, type, fee) = qty * (exit - entry) * (-1 if short) - fee * qty * (entry + exit) *)
Definition t_pnl (fee : Qc) (t : trade) : Qc :=
  let g := t_qty t * (t_exit_price t - t_entry_price t) in
  (if t_short t then - g else g) - fee * t_qty t * (t_entry_price t + t_exit_price t).
Fixpoint sum_pnl (fee : Qc) (l : list trade) : Qc := match l with [] => 0 | t :: r => t_pnl fee t + sum_pnl fee r end.

(* a fill that keeps the cycle well-formed: it opens a flat position (not reduce-only), increases it (not reduce-only), or
   reduces/closes it by at most its size *)
Definition regular (q : Qc) (f : fill) : bool :=
  negb (qeqb (fl_sq f) 0) && qltb 0 (fl_price f) &&
  match kind_of q (fl_sq f) (fl_ro f) with
  | KOpen => negb (fl_ro f)
  | KClose | KInc | KRed => true
  | KNoop | KOversize | KFlip => false
  end.
Fixpoint all_regular (fee : Qc) (s : tstate) (fs : list fill) : bool :=
  match fs with [] => true | f :: r => regular (ts_qty s) f && all_regular fee (tstep fee s f) r end.
