(* Model/Lifecycle.v — hand-written model of the order lifecycle and the registries (C05):
   Order.execute / Order.cancel (early return when final), OrdersState (storage, active_storage, to_execute,
   add_order, update_active_orders, reset_trade_orders, execute_pending_market_orders), Sandbox.cancel_all_orders
   (incl. storage.clear() outside unit tests), ClosedTrades.add_executed_order / close_trade, and the engine composites
   Strategy._on_close_position -> _execute_cancel and the `_reset` of Strategy._check.  Balances and positions are the
   subject of C03/C04; here the effect of a fill on the position is an input: each execution says whether it closes the
   position (any assignment of these flags is allowed: the theorems hold for all of them). *)
From Coq Require Import List Bool Arith.
Import ListNotations.

Inductive st := Active | Executed | Canceled.
Definition st_final (s : st) : bool := match s with Active => false | _ => true end.

Record world := {
  statuses : list (nat * st);       (* every order ever submitted, by id *)
  storage : list nat;               (* OrdersState.storage[key] *)
  active : list nat;                (* OrdersState.active_storage[key] *)
  to_exec : list nat;               (* OrdersState.to_execute *)
  temp : list nat;                  (* orders of the trade that is being built (ClosedTrades.tempt_trades[key].orders) *)
  trades : list (list nat);         (* order lists of the closed trades *)
  pos_open : bool;
  next : nat }.

Fixpoint status_of (l : list (nat * st)) (id : nat) : option st :=
  match l with [] => None | (i, s) :: r => if Nat.eqb i id then Some s else status_of r id end.
Fixpoint set_status (l : list (nat * st)) (id : nat) (s : st) : list (nat * st) :=
  match l with [] => [] | (i, x) :: r => if Nat.eqb i id then (i, s) :: r else (i, x) :: set_status r id s end.

Definition is_active (w : world) (id : nat) : bool := match status_of (statuses w) id with Some Active => true | _ => false end.

Definition with_statuses (w : world) (l : list (nat * st)) : world :=
  {| statuses := l; storage := storage w; active := active w; to_exec := to_exec w; temp := temp w; trades := trades w;
     pos_open := pos_open w; next := next w |}.

(* Order(...) + store.orders.add_order(order) [+ to_execute.append for a MARKET order] *)
Definition submit (w : world) (market : bool) : world :=
  let id := next w in
  {| statuses := statuses w ++ [(id, Active)]; storage := storage w ++ [id]; active := active w ++ [id];
     to_exec := if market then to_exec w ++ [id] else to_exec w; temp := temp w; trades := trades w;
     pos_open := pos_open w; next := S id |}.

(* Order.cancel() *)
Definition cancel (w : world) (id : nat) : world :=
  if is_active w id then with_statuses w (set_status (statuses w) id Canceled) else w.

(* Sandbox.cancel_all_orders: cancel every active order of the active list, then storage.clear() *)
Definition cancel_all (w : world) : world :=
  let w' := fold_left cancel (active w) w in
  {| statuses := statuses w'; storage := []; active := active w'; to_exec := to_exec w'; temp := temp w'; trades := trades w';
     pos_open := pos_open w'; next := next w' |}.

(* Strategy._reset -> OrdersState.reset_trade_orders *)
Definition reset_trade (w : world) : world :=
  {| statuses := statuses w; storage := []; active := []; to_exec := to_exec w; temp := temp w; trades := trades w;
     pos_open := pos_open w; next := next w |}.

(* Strategy._on_close_position -> _execute_cancel: cancel_all_orders; _reset; storage.clear() *)
Definition execute_cancel (w : world) : world := reset_trade (cancel_all w).

(* Order.execute(): early return when final; the trade record; then the position effect chosen by `closes`
   (closing: ClosedTrades.close_trade moves the trade to the list, then the strategy cancels everything; opening sets pos_open) *)
Inductive eff := Keep | Close | Flip.     (* effect of the fill on the position: none of these / closes it / closes and re-opens it on the other side *)

Definition execute (w : world) (id : nat) (e : eff) : world :=
  let closes := match e with Close => true | _ => false end in
  let flips := match e with Flip => true | _ => false end in
  if is_active w id then
    let w1 := {| statuses := set_status (statuses w) id Executed; storage := storage w; active := active w; to_exec := to_exec w;
                 temp := temp w ++ [id]; trades := trades w; pos_open := pos_open w; next := next w |} in
    if closes && pos_open w1 then
      execute_cancel {| statuses := statuses w1; storage := storage w1; active := active w1; to_exec := to_exec w1;
                        temp := []; trades := trades w1 ++ [temp w1]; pos_open := false; next := next w1 |}
    else if flips && pos_open w1 then
      (* _mutating_close (close_trade) then _mutating_open: the trade record moves to the list, nothing is cancelled *)
      {| statuses := statuses w1; storage := storage w1; active := active w1; to_exec := to_exec w1; temp := []; trades := trades w1 ++ [temp w1];
         pos_open := true; next := next w1 |}
    else {| statuses := statuses w1; storage := storage w1; active := active w1; to_exec := to_exec w1; temp := temp w1; trades := trades w1;
            pos_open := true; next := next w1 |}
  else w.

(* OrdersState.update_active_orders *)
Definition update_active (w : world) : world :=
  {| statuses := statuses w; storage := storage w; active := filter (is_active w) (active w); to_exec := to_exec w; temp := temp w;
     trades := trades w; pos_open := pos_open w; next := next w |}.

(* the `_reset()` of Strategy._check: only when the position is closed and get_entry_orders (= storage) is empty *)
Definition check_reset (w : world) : world :=
  if negb (pos_open w) && match storage w with [] => true | _ => false end then reset_trade w else w.

Inductive lop :=
| Submit (market : bool)
| CancelOne (id : nat)
| CancelAll                      (* strategy: no position, should_cancel_entry: _execute_cancel *)
| ExecuteOne (id : nat) (e : eff)
| ExecutePending (es : list eff)     (* execute_pending_market_orders: one flag per pending order, in order *)
| UpdateActive
| CheckReset.

Fixpoint exec_list (w : world) (ids : list nat) (flags : list eff) : world :=
  match ids with
  | [] => w
  | id :: r => if is_active w id then exec_list (execute w id (hd Keep flags)) r (tl flags)   (* one effect per effective execution *)
               else exec_list w r flags
  end.

Definition lstep (w : world) (o : lop) : world :=
  match o with
  | Submit m => submit w m
  | CancelOne id => cancel w id
  | CancelAll => if pos_open w then w else execute_cancel w
  | ExecuteOne id c => execute w id c
  | ExecutePending fl =>
      let w' := exec_list w (to_exec w) fl in
      {| statuses := statuses w'; storage := storage w'; active := active w'; to_exec := []; temp := temp w'; trades := trades w';
         pos_open := pos_open w'; next := next w' |}
  | UpdateActive => update_active w
  | CheckReset => check_reset w
  end.

Definition linit : world :=
  {| statuses := []; storage := []; active := []; to_exec := []; temp := []; trades := []; pos_open := false; next := 0 |}.
