(* Model/Market.v — OrdersState.execute_pending_market_orders as it is written: `for o in self.to_execute: o.execute()` walks the
   LIVE list by index, so a MARKET order that a hook submits while another pending order is being executed is executed in the
   same pass; afterwards `self.to_execute = []`.  What the strategy layer does after each fill (submissions, cancellations) and
   the position effect of each fill are arbitrary functions. *)
From Coq Require Import List Bool Arith.
From JV Require Import Model.Lifecycle.
Import ListNotations.

Definition simple_op (o : lop) : bool := match o with ExecutePending _ | ExecuteOne _ _ => false | _ => true end.

Section Pass.
Variable hook : world -> nat -> list lop.      (* what the hooks fired by the fill of order id do (only submissions/cancellations are kept) *)
Variable eff_of : world -> nat -> eff.

Definition clear_queue (w : world) : world :=
  {| statuses := statuses w; storage := storage w; active := active w; to_exec := []; temp := temp w; trades := trades w;
     pos_open := pos_open w; next := next w |}.

(* returns the world after the pass and the whole queue that was walked *)
Fixpoint pass (fuel i : nat) (w : world) : option (world * list nat) :=
  match fuel with
  | O => None
  | S f =>
      match nth_error (to_exec w) i with
      | None => Some (clear_queue w, to_exec w)
      | Some id =>
          if is_active w id then
            let w1 := execute w id (eff_of w id) in
            pass f (S i) (fold_left lstep (filter simple_op (hook w1 id)) w1)
          else pass f (S i) w            (* Order.execute returns early: no hook fires *)
      end
  end.
End Pass.
