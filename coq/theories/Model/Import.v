(* Model/Import.v — hand-written model of import_candles_mode._fill_absent_candles.
   pydash.find = first element satisfying the predicate.  Prices are only copied, so the
   price type is arbitrary. *)
From Coq Require Import ZArith List Bool.
Import ListNotations.
Local Open Scope Z_scope.

Section Import.
Context {A : Type}.
Variable zero : A.          (* volume 0 *)

Record icandle := { its : Z; iopen : A; iclose : A; ihigh : A; ilow : A; ivol : A }.

Definition flat (ts : Z) (p : A) : icandle :=
  {| its := ts; iopen := p; iclose := p; ihigh := p; ilow := p; ivol := zero |}.

Definition lookup (batch : list icandle) (ts : Z) : option icandle :=
  find (fun c => its c =? ts) batch.

(* the loop: `n` iterations starting at timestamp ts; acc is the list built so far, newest first *)
Fixpoint fill_loop (n : nat) (batch : list icandle) (first_open : A) (ts : Z) (started : bool) (acc : list icandle) : list icandle :=
  match n with
  | O => rev acc
  | S m =>
      match lookup batch ts with
      | None =>
          let p := if started then match acc with c :: _ => iclose c | [] => first_open end else first_open in
          fill_loop m batch first_open (ts + 60000) started (flat ts p :: acc)
      | Some c => fill_loop m batch first_open (ts + 60000) true (c :: acc)
      end
  end.

Inductive fill_result := Filled (l : list icandle) | NoCandles.

Definition fill_absent (batch : list icandle) (start finish : Z) : fill_result :=
  match batch with
  | [] => NoCandles
  | c0 :: _ =>
      (* int(((end - start) / 60000) + 1): truncation of a float quotient *)
      let n := Z.to_nat (Z.quot (finish - start) 60000 + 1) in
      Filled (fill_loop n batch (iopen c0) start false [])
  end.
End Import.
Arguments icandle : clear implicits.
