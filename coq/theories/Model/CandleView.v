(* Model/CandleView.v — hand-written model of what a strategy reads from the candle store and of how the simulators
   feed it (backtest branches):
     services/candle.generate_candle_from_one_minutes            -> agg
     store/state_candles.forming_estimation / get_candles / get_current_candle (one higher timeframe of n minutes)
     modes/backtest_mode._update_all_routes_a_partial_candle      -> publish_partial
     the window arithmetic of _step_simulator / _simulate_new_candles / inject_warmup_candles_to_store -> complete_tf
   on top of the add_candle model (Model/CandleStore.v).  Tied to the code by harness/c07.py. *)
From Coq Require Import ZArith QArith Qcanon List Bool.
From JV Require Import Base.Num Model.CandleStore.
Import ListNotations.
Local Open Scope Z_scope.
Import QcI.

Record kc := { k_ts : Z; k_o : Qc; k_c : Qc; k_h : Qc; k_l : Qc; k_v : Qc }.

Definition qmax2 (a b : Qc) : Qc := if qleb a b then b else a.
Definition qmin2 (a b : Qc) : Qc := if qleb a b then a else b.

(* generate_candle_from_one_minutes(timeframe, candles, accept_forming_candles=True) for a non-empty slice *)
Definition agg (xs : list kc) : option kc :=
  match xs with
  | [] => None
  | x :: r => Some {| k_ts := k_ts x; k_o := k_o x; k_c := k_c (last xs x);
                      k_h := fold_left (fun m y => qmax2 m (k_h y)) r (k_h x);
                      k_l := fold_left (fun m y => qmin2 m (k_l y)) r (k_l x);
                      k_v := fold_left (fun m y => (m + k_v y)%Qc) r (k_v x) |}
  end.

Definition addc := add_candle k_ts.

(* CandlesState.get_candles(exchange, symbol, timeframe) for a timeframe of n > 1 minutes (after the F7/F8 repair) *)
Definition get_candles (n : nat) (short long : list kc) : option (list kc) :=
  let dif := Nat.modulo (length short) n in
  let lc := length long in
  if Nat.eqb dif 0 && Nat.eqb lc 0 then Some []
  else if Nat.eqb dif 0 then Some long
  else
    let start := (length short - dif)%nat in
    let stale := match rev long, nth_error short start with
                 | x :: _, Some s => k_ts x =? k_ts s
                 | _, _ => false
                 end in
    let lc' := if stale then (lc - 1)%nat else lc in
    match agg (skipn start short) with
    | Some f => Some (firstn lc' long ++ [f])
    | None => None
    end.

(* CandlesState.get_current_candle *)
Definition get_current_candle (n : nat) (short long : list kc) : option kc :=
  let dif := Nat.modulo (length short) n in
  if negb (Nat.eqb dif 0) then agg (skipn (length short - dif) short)
  else match rev long with x :: _ => Some x | [] => None end.

(* _update_all_routes_a_partial_candle: the partial 1m candle goes into the 1m store, then for the timeframe the candle of
   the current window is regenerated from the last `needed` 1m candles and stored *)
Definition publish_partial (n : nat) (p : kc) (short long : list kc) : list kc * list kc :=
  let short' := addc short p in
  let needed := Z.to_nat (Z.quot (Z.rem (k_ts p) (Z.of_nat n * 60000)) 60000 + 1) in
  let tail := skipn (length short' - needed) short' in
  match agg tail with
  | Some g => (short', addc long g)
  | None => (short', long)
  end.

(* the step simulator after minute i (0-based) of the input array cs: `if (i + 1) % count == 0: generate(cs[i-(count-1) : i+1])` *)
Definition complete_tf (n : nat) (cs : list kc) (i : nat) (long : list kc) : list kc :=
  if Nat.eqb (Nat.modulo (i + 1) n) 0 then
    match agg (firstn n (skipn (i + 1 - n) cs)) with Some g => addc long g | None => long end
  else long.

(* one minute of the step simulator for one symbol and one higher timeframe: add the (gap-fixed) 1m candle, publish the
   partial candles of the fills of that minute, store the real candle again, complete the timeframe if the window ends *)
Definition step_minute (n : nat) (cs : list kc) (i : nat) (partials : list kc) (st : list kc * list kc) : list kc * list kc :=
  match nth_error cs i with
  | None => st
  | Some c =>
      let '(short, long) := st in
      let short1 := addc short c in
      let '(short2, long2) := fold_left (fun s p => publish_partial n p (fst s) (snd s)) partials (short1, long) in
      let short3 := addc short2 c in
      (short3, complete_tf n cs i long2)
  end.

(* the specification: the k-th window of n minutes and the aggregation of all started windows *)
Definition win (n k : nat) (l : list kc) : list kc := firstn n (skipn (k * n) l).
Definition nwin (n : nat) (l : list kc) : nat := (length l / n + (if Nat.eqb (Nat.modulo (length l) n) 0 then 0 else 1))%nat.
Definition aggs (n : nat) (l : list kc) : list (option kc) := map (fun k => agg (win n k l)) (seq 0 (nwin n l)).
