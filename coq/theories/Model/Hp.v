(* Model/Hp.v — hand-written model of helpers.dna_to_hp (the `for gene, h in zip(dna, strategy_hp)` loop
   around the GENERATED convert_number) and of the hyper-parameter precedence implemented by
   backtest_mode._prepare_routes + Strategy._init_objects. *)
From Coq Require Import ZArith List Bool.
From JV Require Import Base.Num Gen.helpers.
Import ListNotations.

Inductive hptype := HInt | HFloat | HOther.
Record decl (N : Num) := { d_type : hptype; d_min : N; d_max : N; d_default : N }.
Arguments d_type {N}. Arguments d_min {N}. Arguments d_max {N}. Arguments d_default {N}.

Inductive value (N : Num) := VInt (z : Z) | VFloat (x : N).
Arguments VInt {N}. Arguments VFloat {N}.

(* one iteration of the loop body *)
Definition decode {N : Num} (h : decl N) (gene : Z) : Res (value N) :=
  match d_type h with
  | HInt => bindR (convert_number N (ofZ N 119) (ofZ N 40) (d_max h) (d_min h) (ofZ N gene)) (fun x => Val (VInt (roundZ N x)))
  | HFloat => bindR (convert_number N (ofZ N 119) (ofZ N 40) (d_max h) (d_min h) (ofZ N gene)) (fun x => Val (VFloat x))
  | HOther => Raise
  end.

(* zip stops at the shorter sequence; the first failure aborts the whole call *)
Fixpoint dna_to_hp {N : Num} (decls : list (decl N)) (dna : list Z) : Res (list (value N)) :=
  match decls, dna with
  | h :: hs, g :: gs =>
      bindR (decode h g) (fun v => bindR (dna_to_hp hs gs) (fun vs => Val (v :: vs)))
  | _, _ => Val []
  end.

(* what a strategy finds in self.hp:
   explicit  = the `hyperparameters` argument of the backtest (None if absent)
   dna       = what the strategy's dna() returns ([] if not overridden)
   defaults  = the declared defaults
   _prepare_routes: explicit if given; else the decoded dna() if non-empty; _init_objects: else the defaults
   when there are declarations; else None *)
Inductive hp_source (N : Num) := FromExplicit (h : list (value N)) | FromDna (r : Res (list (value N))) | FromDefaults | NoHp.
Arguments FromExplicit {N}. Arguments FromDna {N}. Arguments FromDefaults {N}. Arguments NoHp {N}.

Definition effective_hp {N : Num} (explicit : option (list (value N))) (decls : list (decl N)) (dna : list Z) : hp_source N :=
  match explicit with
  | Some h => FromExplicit h
  | None =>
      if Nat.ltb 0 (length dna) then FromDna (dna_to_hp decls dna)
      else if Nat.ltb 0 (length decls) then FromDefaults else NoHp
  end.
