(* Model/Match.v — hand-written model of the order-matching code of modes/backtest_mode.py:
   _get_executing_orders, _sort_execution_orders, and the `while True` match loop of
   _simulate_price_change_effect (step simulator).  The strategy layer (hooks that run when an
   order is executed and may submit or cancel orders) is a parameter `react`: ANY function.
   Uses the GENERATED split_candle / candle_includes_price. *)
From Coq Require Import ZArith QArith Qcanon List Bool.
From JV Require Import Base.Num Gen.candle.
Import ListNotations.
Local Open Scope Qc_scope.
Import QcI.

Notation cndl := (candle QcNum).

Record rorder := { oid : nat; oprice : Qc }.

Definition includes (k : cndl) (o : rorder) : bool := candle_includes_price QcNum k (oprice o).

(* _get_executing_orders: the active orders (the world) whose price is inside the candle *)
Definition executing (k : cndl) (w : list rorder) : list rorder := filter (includes k) w.

(* Python's sorted(key=price) / sorted(key=price, reverse=True): stable insertion sorts *)
Fixpoint ins_asc (o : rorder) (l : list rorder) : list rorder :=
  match l with
  | [] => [o]
  | x :: r => if qleb (oprice o) (oprice x) then o :: l else x :: ins_asc o r
  end.
Fixpoint ins_desc (o : rorder) (l : list rorder) : list rorder :=
  match l with
  | [] => [o]
  | x :: r => if qleb (oprice x) (oprice o) then o :: l else x :: ins_desc o r
  end.
(* stable: elements are inserted from the right, equal keys keep their relative order *)
Definition sort_asc (l : list rorder) : list rorder := fold_right ins_asc [] l.
Definition sort_desc (l : list rorder) : list rorder := fold_right ins_desc [] l.

(* one iteration of the loop body of _sort_execution_orders for candle k *)
Definition sort_one (orders : list rorder) (k : cndl) : list rorder :=
  let inc := filter (includes k) orders in
  match inc with
  | [] => []
  | [x] => [x]
  | _ =>
      let is_red := qltb (c_close k) (c_open k) in
      let open := c_open k in
      let on_open := filter (fun o => qeqb (oprice o) open) inc in
      let above := filter (fun o => qltb open (oprice o)) inc in
      let below := filter (fun o => negb (qltb open (oprice o))) inc in
      on_open ++ (if is_red then sort_asc above ++ sort_desc below else sort_desc below ++ sort_asc above)
  end.

(* `order not in sorted_orders` (object identity) *)
Definition listed (acc : list rorder) (o : rorder) : bool := existsb (fun x => Nat.eqb (oid x) (oid o)) acc.

(* _sort_execution_orders(orders, short_candles): an order already listed by an earlier candle is skipped;
   the orders no candle of the chunk contains are kept at the end *)
Fixpoint sort_exec_from (orders : list rorder) (ks : list cndl) (acc : list rorder) : list rorder :=
  match ks with
  | [] => acc
  | k :: r =>
      let acc' := acc ++ sort_one (filter (fun o => negb (listed acc o)) orders) k in
      if Nat.eqb (length acc') (length orders) then acc' else sort_exec_from orders r acc'
  end.
Definition sort_exec (orders : list rorder) (ks : list cndl) : list rorder :=
  let s := sort_exec_from orders ks [] in s ++ filter (fun o => negb (listed s o)) orders.

Definition candidates (k : cndl) (w : list rorder) : list rorder :=
  let ex := executing k w in
  if Nat.ltb 1 (length ex) then sort_exec ex [k] else ex.

Definition is_active (w : list rorder) (o : rorder) : bool := existsb (fun x => Nat.eqb (oid x) (oid o)) w.
Definition remove_order (o : rorder) (w : list rorder) : list rorder := filter (fun x => negb (Nat.eqb (oid x) (oid o))) w.

Inductive outcome :=
| Done (fills : list (rorder * cndl)) (rest : cndl) (w : list rorder)
| SplitFailed (o : rorder) (k : cndl)
| OutOfFuel.

Section Loop.
(* what the rest of the system does when order o is executed while the strategy sees the
   partial candle a: returns the new set of active orders (o itself is already gone) *)
Variable react : rorder -> cndl -> list rorder -> list rorder.

(* the `for index, order in enumerate(executing_orders)` scan: first active candidate whose
   price is inside the current candle *)
Definition pick (k : cndl) (w cands : list rorder) : option rorder :=
  find (fun o => is_active w o && includes k o) cands.

Fixpoint mloop (fuel : nat) (k : cndl) (w cands : list rorder) (fills : list (rorder * cndl)) : outcome :=
  match fuel with
  | O => OutOfFuel
  | S f =>
      match pick k w cands with
      | None => Done (rev fills) k w
      | Some o =>
          match split_candle QcNum k (oprice o) with
          | Val (a, b) =>
              let w' := react o a (remove_order o w) in
              mloop f b w' (candidates b w') ((o, a) :: fills)
          | _ => SplitFailed o k
          end
      end
  end.

Definition match_minute (fuel : nat) (k : cndl) (w : list rorder) : outcome :=
  mloop fuel k w (candidates k w) [].
End Loop.
