(* Model/Purity.v — process-global state as cells, a session as a program that reads and writes cells (C11).
   Cells: Cfg k  (an entry of jesse.config.config, addressed by its dotted key)
          Memo k (the entry helpers.CACHED_CONFIG[k] that get_config memoises)
          Aux k  (any other global the session touches: store, router, caches keyed by their arguments, ...)
   A program is a tree: read a cell and continue with its value, write a cell, or return.  The body of a session (strategy,
   simulator, metrics) is an ARBITRARY program; the prologue and epilogue of research.backtest are fixed:
     set_config:    CACHED_CONFIG.clear(); config entries of the session := values computed from the arguments
     router.initiate -> store.reset: Aux cells of the store := fresh
     ... body ...
     reset_config (CACHED_CONFIG.clear()) ; store.reset *)
From Coq Require Import List Bool Arith.
Import ListNotations.

Section Cells.
Variable V : Type.                 (* values *)
Variable R : Type.                 (* results *)

Inductive cell := Cfg (k : nat) | Memo (k : nat) | Aux (k : nat).
Definition cell_eqb (a b : cell) : bool :=
  match a, b with Cfg x, Cfg y | Memo x, Memo y | Aux x, Aux y => Nat.eqb x y | _, _ => false end.

Definition state := cell -> option V.       (* None = absent (a key that is not in the dict) *)
Definition upd (s : state) (c : cell) (v : option V) : state := fun c' => if cell_eqb c' c then v else s c'.

Inductive prog :=
| Ret (r : R)
| Read (c : cell) (k : option V -> prog)
| Write (c : cell) (v : option V) (k : prog).

(* run p on s: the result, the final state, the cells read before this run wrote them, the cells written *)
Fixpoint exec (p : prog) (s : state) (written : list cell) : R * state * list cell * list cell :=
  match p with
  | Ret r => (r, s, [], written)
  | Read c k => let '(r, s', rb, w) := exec (k (s c)) s written in
                (r, s', if existsb (cell_eqb c) written then rb else c :: rb, w)
  | Write c v k => exec k (upd s c v) (c :: written)
  end.
Definition result (p : prog) (s : state) : R := fst (fst (fst (exec p s []))).
Definition read_before_write (p : prog) (s : state) : list cell := snd (fst (exec p s [])).

(* helpers.get_config(key): memoised read of the configuration *)
Definition get_config (key : nat) (k : option V -> prog) : prog :=
  Read (Memo key) (fun m => match m with
                            | Some v => k (Some v)
                            | None => Read (Cfg key) (fun v => Write (Memo key) v (k v))
                            end).

Fixpoint seq_writes (ws : list (cell * option V)) (k : prog) : prog :=
  match ws with [] => k | (c, v) :: r => Write c v (seq_writes r k) end.

(* research.backtest: `keys` = every key get_config may be asked for (the memo is cleared for all of them), `conf` = the
   configuration entries computed from the arguments, `fresh` = the store/router cells re-created from the arguments *)
Definition session (keys : list nat) (conf : list (nat * option V)) (fresh : list (nat * option V)) (body : prog) : prog :=
  seq_writes (map (fun k => (Memo k, None)) keys)
    (seq_writes (map (fun kv => (Cfg (fst kv), snd kv)) conf)
       (seq_writes (map (fun kv => (Aux (fst kv), snd kv)) fresh) body)).
End Cells.
Arguments Ret {V R}. Arguments Read {V R}. Arguments Write {V R}. Arguments exec {V R}. Arguments result {V R}.
Arguments read_before_write {V R}. Arguments get_config {V R}. Arguments session {V R}. Arguments upd {V}. Arguments seq_writes {V R}.
