(* Model/CandleStore.v — hand-written model of store/state_candles.py (backtest branches):
   add_candle, add_multiple_1m_candles (this file); get_candles / get_current_candle / forming_estimation
   are in Model/CandleView.v.  The per-timeframe storage is a list of rows (the list that the
   DynamicNumpyArray refines, C18).  Only timestamps are inspected; the rest of a row is copied. *)
From Coq Require Import ZArith List Bool.
Import ListNotations.
Local Open Scope Z_scope.

Section Store.
Context {R : Type}.            (* a stored row *)
Variable ts : R -> Z.          (* its timestamp, candle[0] *)

(* replace the first row (scanning from the END, as `for i in range(1, len+1): arr[-i]`) with timestamp t *)
Fixpoint replace_from_end_rev (rv : list R) (c : R) : option (list R) :=
  match rv with
  | [] => None
  | x :: r => if ts x =? ts c then Some (c :: r)
              else match replace_from_end_rev r c with Some r' => Some (x :: r') | None => None end
  end.
Definition replace_older (arr : list R) (c : R) : list R :=
  match replace_from_end_rev (rev arr) c with Some rv => rev rv | None => arr end.

Definition add_candle (arr : list R) (c : R) : list R :=
  if ts c =? 0 then arr
  else match rev arr with
       | [] => [c]
       | lastc :: before =>
           if ts lastc <? ts c then arr ++ [c]
           else if ts c =? ts lastc then rev (c :: before)
           else replace_older arr c
       end.

Inductive outcome := StoreOk (arr : list R) | StoreErr.

(* add_multiple_1m_candles(candles) *)
Definition add_multiple (arr : list R) (batch : list R) : outcome :=
  match batch, rev batch with
  | b0 :: _, bl :: _ =>
      match rev arr with
      | [] => StoreOk (arr ++ batch)
      | lastc :: _ =>
          if ts lastc <? ts b0 then StoreOk (arr ++ batch)
          else
            let n := length arr in let m := length batch in
            let probe := nth (n - Nat.min m n) arr lastc in          (* arr[-min(len(candles), len(arr))] *)
            if (ts probe <=? ts b0) && (ts lastc <=? ts bl) then
              let ov := Z.to_nat (Z.of_nat m - Z.quot (ts bl - ts lastc) 60000) in     (* override_candles *)
              if ((ov =? 0) || (n <? ov))%nat then StoreErr     (* arr[-0:] would address the whole array; more overridden rows than stored
                                                                   (a store with a gap): numpy refuses the assignment (ValueError) *)
              else StoreOk (firstn (n - ov) arr ++ firstn ov batch ++ skipn ov batch)
            else StoreErr
      end
  | _, _ => StoreErr        (* an empty batch: candles[0, 0] raises IndexError *)
  end.
End Store.
Arguments outcome : clear implicits.
