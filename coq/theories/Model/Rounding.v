(* Model/Rounding.v — hand-written models of helpers.round_decimals_down and round_qty_for_live_mode
   (numpy scalar path), tied to the code by bit-exact correspondence at binary64 (harness/c17.py). *)
From Coq Require Import ZArith Bool.
From JV Require Import Base.Num.

Definition round_decimals_down (N : Num) (x : N) (d : Z) : N :=
  if (d =? 0)%Z then ofZ N (floorZ N x)
  else if (0 <? d)%Z then let f := (10 ^ d)%Z in div N (ofZ N (floorZ N (mul N x (ofZ N f)))) (ofZ N f)
  else let f := (10 ^ (- d))%Z in mul N (ofZ N (floorZ N (div N x (ofZ N f)))) (ofZ N f).

Definition round_qty_for_live_mode (N : Num) (q : N) (p : Z) : Res N :=
  let r := round_decimals_down N q p in
  if eqb N r (ofZ N 0) then (if (0 <=? p)%Z then Val (div N (ofZ N 1) (ofZ N (10 ^ p)%Z)) else Raise)
  else Val r.
