(* Model/Futures.v — hand-written model of a futures session's accounting (exact rationals):
   FuturesExchange.available_margin / on_order_submission / on_order_execution / on_order_cancellation /
   charge_fee / add_realized_pnl, Order.execute / Order.cancel (early return when final),
   Position._on_executed_order (backtest branch) with _mutating_open/close/increase/reduce, Position.pnl,
   total_cost.  Several symbols share one wallet.  Tied to the code by harness/c03.py. *)
From Coq Require Import ZArith QArith Qcanon List Bool.
From JV Require Import Base.Num Model.Spot.
Import ListNotations.
Local Open Scope Qc_scope.
Import QcI.

Record forder := { f_id : nat; f_sym : nat; f_side : side; f_typ : otype; f_qty : Qc (* magnitude *); f_price : Qc;
                   f_ro : bool; f_status : status }.
Definition fset_status (o : forder) (s : status) : forder :=
  {| f_id := f_id o; f_sym := f_sym o; f_side := f_side o; f_typ := f_typ o; f_qty := f_qty o; f_price := f_price o;
     f_ro := f_ro o; f_status := s |}.
Definition f_final (o : forder) : bool := match f_status o with Active => false | _ => true end.
Definition signed (o : forder) : Qc := match f_side o with Buy => f_qty o | Sell => - f_qty o end.

Record fpos := { p_qty : Qc; p_entry : Qc; p_cur : Qc }.

Record fut := { wallet : Qc; lev : Qc; ffee : Qc; nsym : nat;
                posn : nat -> fpos;
                buys : nat -> list (Qc * Qc);       (* rows [qty, price] of Exchange.buy_orders[asset] *)
                sells : nat -> list (Qc * Qc);      (* rows [qty (negative), price] of Exchange.sell_orders[asset] *)
                forders : list forder }.

Definition upd {X} (f : nat -> X) (k : nat) (v : X) : nat -> X := fun i => if Nat.eqb i k then v else f i.

(* Position.pnl *)
Definition pos_pnl (p : fpos) : Qc :=
  let value := qabs (p_cur p * p_qty p) in
  let diff := value - qabs (p_entry p * p_qty p) in
  if qltb (p_qty p) 0 then - diff else diff.

Fixpoint tsum (l : list (Qc * Qc)) : Qc := match l with [] => 0 | r :: t => fst r * snd r + tsum t end.

(* FuturesExchange.available_margin *)
Definition spent_on (s : fut) (i : nat) : Qc :=
  let p := posn s i in
  (if qeqb (p_qty p) 0 then 0 else p_entry p * qabs (p_qty p) / lev s - pos_pnl p)
  + nmax (N := QcNum) (qabs (tsum (buys s i)) / lev s) (qabs (tsum (sells s i)) / lev s).
Fixpoint spent (s : fut) (n : nat) : Qc := match n with O => 0 | S m => spent s m + spent_on s m end.
Definition avail (s : fut) : Qc := wallet s - spent s (nsym s).

Fixpoint remove_first (x : Qc * Qc) (l : list (Qc * Qc)) : list (Qc * Qc) :=
  match l with
  | [] => []
  | y :: r => if qeqb (fst y) (fst x) && qeqb (snd y) (snd x) then r else y :: remove_first x r
  end.

Definition row_of (o : forder) : Qc * Qc := (signed o, f_price o).

Definition with_tables (s : fut) (b sl : nat -> list (Qc * Qc)) (os : list forder) : fut :=
  {| wallet := wallet s; lev := lev s; ffee := ffee s; nsym := nsym s; posn := posn s; buys := b; sells := sl; forders := os |}.

Definition fsubmit (s : fut) (o : forder) : fut * result :=
  if negb (f_ro o) && qltb (avail s) (qabs (signed o * f_price o) / lev s) then (s, Rejected)
  else
    let os := forders s ++ [fset_status o Active] in
    if f_ro o then (with_tables s (buys s) (sells s) os, Accepted)
    else match f_side o with
         | Buy => (with_tables s (upd (buys s) (f_sym o) (buys s (f_sym o) ++ [row_of o])) (sells s) os, Accepted)
         | Sell => (with_tables s (buys s) (upd (sells s) (f_sym o) (sells s (f_sym o) ++ [row_of o])) os, Accepted)
         end.

Fixpoint ffind (os : list forder) (id : nat) : option forder :=
  match os with [] => None | o :: r => if Nat.eqb (f_id o) id then Some o else ffind r id end.
Fixpoint freplace (os : list forder) (o' : forder) : list forder :=
  match os with [] => [] | o :: r => if Nat.eqb (f_id o) (f_id o') then o' :: r else o :: freplace r o' end.

Definition drop_row (s : fut) (o : forder) : (nat -> list (Qc * Qc)) * (nat -> list (Qc * Qc)) :=
  if f_ro o then (buys s, sells s)
  else match f_side o with
       | Buy => (upd (buys s) (f_sym o) (remove_first (row_of o) (buys s (f_sym o))), sells s)
       | Sell => (buys s, upd (sells s) (f_sym o) (remove_first (row_of o) (sells s (f_sym o))))
       end.

(* helpers.estimate_PNL(qty, entry, exit, type) with fee 0 *)
Definition realized (qty entry price : Qc) (is_short : bool) : Qc :=
  let profit := qabs qty * (price - entry) in if is_short then - profit else profit.

(* Position._on_executed_order (backtest branch): returns the new position and the PnL credited to the wallet *)
Definition position_fill (p : fpos) (sq price : Qc) (ro : bool) : fpos * Qc :=
  let q := p_qty p in
  let short := qltb q 0 in
  let mk a e := {| p_qty := a; p_entry := e; p_cur := p_cur p |} in
  if qeqb q 0 then (mk sq price, 0)                                                   (* opens *)
  else if qeqb (q + sq) 0 then (mk 0 (p_entry p), realized q (p_entry p) price short)  (* closes *)
  else if qltb 0 (q * sq) then
         (if ro then (p, 0)
          else (mk (q + sq) ((qabs sq * price + qabs q * p_entry p) / (qabs sq + qabs q)), 0))   (* increases *)
  else if qltb (qabs q) (qabs sq) then
         (if ro then (mk 0 (p_entry p), realized q (p_entry p) price short)            (* oversize reduce-only: closes *)
          else (mk (q + sq) price, realized q (p_entry p) price short))                (* flips *)
  else (mk (q + sq) (p_entry p), realized sq (p_entry p) price short).                 (* reduces *)

Definition fexecute (s : fut) (id : nat) : fut :=
  match ffind (forders s) id with
  | None => s
  | Some o =>
      if f_final o then s
      else
        let '(b, sl) := drop_row s o in
        let fee_amount := qabs (signed o * f_price o) * ffee s in
        let '(p', pnl) := position_fill (posn s (f_sym o)) (signed o) (f_price o) (f_ro o) in
        {| wallet := wallet s - fee_amount + pnl; lev := lev s; ffee := ffee s; nsym := nsym s;
           posn := upd (posn s) (f_sym o) p'; buys := b; sells := sl;
           forders := freplace (forders s) (fset_status o Executed) |}
  end.

Definition fcancel (s : fut) (id : nat) : fut :=
  match ffind (forders s) id with
  | None => s
  | Some o =>
      if f_final o then s
      else let '(b, sl) := drop_row s o in with_tables s b sl (freplace (forders s) (fset_status o Canceled))
  end.

Definition fprice (s : fut) (sym : nat) (price : Qc) : fut :=
  let p := posn s sym in
  {| wallet := wallet s; lev := lev s; ffee := ffee s; nsym := nsym s;
     posn := upd (posn s) sym {| p_qty := p_qty p; p_entry := p_entry p; p_cur := price |};
     buys := buys s; sells := sells s; forders := forders s |}.

Inductive fop := FSubmit (o : forder) | FExecute (id : nat) | FCancel (id : nat) | FPrice (sym : nat) (price : Qc).

Definition finit (balance leverage fee_rate : Qc) (n : nat) (price0 : Qc) : fut :=
  {| wallet := balance; lev := leverage; ffee := fee_rate; nsym := n;
     posn := fun _ => {| p_qty := 0; p_entry := 0; p_cur := price0 |};
     buys := fun _ => []; sells := fun _ => []; forders := [] |}.

Definition fstep (s : fut) (o : fop) : fut * result :=
  match o with
  | FSubmit x => fsubmit s x
  | FExecute id => (fexecute s id, Done)
  | FCancel id => (fcancel s id, Done)
  | FPrice sym p => (fprice s sym p, Done)
  end.

(* a rejected submission ends the sequence *)
Fixpoint frun (s : fut) (ops : list fop) : fut * list result :=
  match ops with
  | [] => (s, [])
  | o :: r => let '(s', res) := fstep s o in
              match res with Rejected => (s', [Rejected]) | _ => let '(s'', rs) := frun s' r in (s'', res :: rs) end
  end.
