(* Model/FastMatch.v — hand-written model of _simulate_price_change_effect_multiple_candles (the fast simulator's matcher for one
   chunk of 1m candles), as it is after the repairs a30b0842 / c714011b:
     real_candle = (first ts, first open, last close, max high, min low, sum volume) of the chunk
     path candles = the chunk's minutes, each normalised to start at the previous minute's close (_get_fixed_jumped_candle on copies)
     executing_orders = active orders inside real_candle (sorted along the path candles when more than one); nothing at all happens when empty
     for each minute i: the path candle of the minute; the `while True` loop of the normal simulator on it, except that after a fill the candidates are the active orders inside real_candle, sorted along what
       is left of the minute followed by the rest of the path candles.
   The strategy layer is the parameter `react` (ANY function), as in Model/Match.v. *)
From Coq Require Import ZArith QArith Qcanon List Bool.
From JV Require Import Base.Num Gen.candle Gen.backtest Model.Match.
Import ListNotations.
Local Open Scope Qc_scope.
Import QcI.

Definition qmx (a b : Qc) : Qc := if qltb a b then b else a.
Definition qmn (a b : Qc) : Qc := if qltb b a then b else a.

Definition chunk_candle (ks : list cndl) : option cndl :=
  match ks with
  | [] => None
  | k :: r => Some (mkC (c_ts k) (c_open k) (c_close (last ks k))
                        (fold_left (fun m (x : cndl) => qmx m (c_high x)) r (c_high k))
                        (fold_left (fun m (x : cndl) => qmn m (c_low x)) r (c_low k))
                        (fold_left (fun m (x : cndl) => m + c_vol x) r (c_vol k)))
  end.

(* the path candles: path_candles[k] = _get_fixed_jumped_candle(path_candles[k - 1], path_candles[k]) on a copy of the chunk *)
Fixpoint norm_chain (prev : option cndl) (ks : list cndl) : list cndl :=
  match ks with
  | [] => []
  | k :: r => let k' := match prev with Some p => fix_jump QcNum p k | None => k end in k' :: norm_chain (Some k') r
  end.

Inductive foutcome :=
| FDone (fills : list (rorder * cndl * nat)) (w : list rorder)      (* fills with the partial candle and the minute index inside the chunk *)
| FSplitFailed (o : rorder) (k : cndl)
| FOutOfFuel.

Section Fast.
Variable react : rorder -> cndl -> list rorder -> list rorder.

Definition refresh (real b : cndl) (rest : list cndl) (w : list rorder) : list rorder :=
  let ex := executing real w in if Nat.ltb 1 (length ex) then sort_exec ex (b :: rest) else ex.

(* the `while True` loop for one minute; returns the fills of the minute, the world and the candidate list *)
Fixpoint floop (fuel : nat) (real : cndl) (rest : list cndl) (i : nat) (k : cndl) (w cands : list rorder) (fills : list (rorder * cndl * nat))
  : option (list (rorder * cndl * nat) * list rorder * list rorder) + (rorder * cndl) :=
  match fuel with
  | O => inl None
  | S f =>
      match pick k w cands with
      | None => inl (Some (fills, w, cands))
      | Some o =>
          match split_candle QcNum k (oprice o) with
          | Val (a, b) =>
              let w' := react o a (remove_order o w) in
              floop f real rest i b w' (refresh real b rest w') (fills ++ [(o, a, i)])
          | _ => inr (o, k)
          end
      end
  end.

(* nks = the path candles still to come, the first one being the current minute *)
Fixpoint fchunk (fuel : nat) (real : cndl) (i : nat) (nks : list cndl) (w cands : list rorder) (fills : list (rorder * cndl * nat)) : foutcome :=
  match nks with
  | [] => FDone fills w
  | k' :: r =>
      match floop fuel real r i k' w cands fills with
      | inl (Some (fills', w', cands')) => fchunk fuel real (S i) r w' cands' fills'
      | inl None => FOutOfFuel
      | inr (o, kk) => FSplitFailed o kk
      end
  end.

Definition fast_chunk (fuel : nat) (ks : list cndl) (w : list rorder) : foutcome :=
  match chunk_candle ks with
  | None => FDone [] w
  | Some real =>
      let ex := executing real w in
      match ex with
      | [] => FDone [] w
      | _ => let nks := norm_chain None ks in
             let cands := if Nat.ltb 1 (length ex) then sort_exec ex nks else ex in fchunk fuel real 0 nks w cands []
      end
  end.
End Fast.
