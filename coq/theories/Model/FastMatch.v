(* Model/FastMatch.v — hand-written model of _simulate_price_change_effect_multiple_candles (the fast simulator's matcher for one
   chunk of 1m candles), as it is after the repairs a30b0842 / c714011b:
     real_candle = (first ts, first open, last close, max high, min low, sum volume) of the chunk
     executing_orders = active orders inside real_candle (sorted along the chunk when more than one); nothing at all happens when empty
     for each minute i: the minute's candle with high/low stretched to the previous minute's close (i > 0); the `while True` loop of
       the normal simulator on it, except that after a fill the candidates are the active orders inside real_candle, sorted along what
       is left of the minute followed by the rest of the chunk.
   The strategy layer is the parameter `react` (ANY function), as in Model/Match.v. *)
From Coq Require Import ZArith QArith Qcanon List Bool.
From JV Require Import Base.Num Gen.candle Model.Match.
Import ListNotations.
Local Open Scope Qc_scope.
Import QcI.

Definition qmx (a b : Qc) : Qc := if qltb a b then b else a.
Definition qmn (a b : Qc) : Qc := if qltb b a then b else a.

(* current_temp_candle[3] = max(high, previous close); current_temp_candle[4] = min(low, previous close) *)
Definition stretch (prev k : cndl) : cndl :=
  mkC (c_ts k) (c_open k) (c_close k) (qmx (c_high k) (c_close prev)) (qmn (c_low k) (c_close prev)) (c_vol k).

Definition chunk_candle (ks : list cndl) : option cndl :=
  match ks with
  | [] => None
  | k :: r => Some (mkC (c_ts k) (c_open k) (c_close (last ks k))
                        (fold_left (fun m (x : cndl) => qmx m (c_high x)) r (c_high k))
                        (fold_left (fun m (x : cndl) => qmn m (c_low x)) r (c_low k))
                        (fold_left (fun m (x : cndl) => m + c_vol x) r (c_vol k)))
  end.

Inductive foutcome :=
| FDone (fills : list (rorder * cndl * nat)) (w : list rorder)      (* fills with the partial candle and the minute index inside the chunk *)
| FSplitFailed (o : rorder) (k : cndl)
| FOutOfFuel.

Section Fast.
Variable react : rorder -> cndl -> list rorder -> list rorder.

Definition refresh (real b : cndl) (rest : list cndl) (w : list rorder) : list rorder :=
  let ex := executing real w in if Nat.ltb 1 (length ex) then sort_exec ex (b :: rest) else ex.

(* the `while True` loop for one minute; returns the fills of the minute, the world and the candidate list *)
Fixpoint floop (fuel : nat) (real : cndl) (rest : list cndl) (i : nat) (k : cndl) (w cands : list rorder) (fills : list (rorder * cndl * nat))
  : option (list (rorder * cndl * nat) * list rorder * list rorder) + (rorder * cndl) :=
  match fuel with
  | O => inl None
  | S f =>
      match pick k w cands with
      | None => inl (Some (fills, w, cands))
      | Some o =>
          match split_candle QcNum k (oprice o) with
          | Val (a, b) =>
              let w' := react o a (remove_order o w) in
              floop f real rest i b w' (refresh real b rest w') (fills ++ [(o, a, i)])
          | _ => inr (o, k)
          end
      end
  end.

Fixpoint fchunk (fuel : nat) (real : cndl) (prev : option cndl) (i : nat) (ks : list cndl) (w cands : list rorder) (fills : list (rorder * cndl * nat)) : foutcome :=
  match ks with
  | [] => FDone fills w
  | k :: r =>
      let k' := match prev with Some p => stretch p k | None => k end in
      match floop fuel real r i k' w cands fills with
      | inl (Some (fills', w', cands')) => fchunk fuel real (Some k) (S i) r w' cands' fills'
      | inl None => FOutOfFuel
      | inr (o, kk) => FSplitFailed o kk
      end
  end.

Definition fast_chunk (fuel : nat) (ks : list cndl) (w : list rorder) : foutcome :=
  match chunk_candle ks with
  | None => FDone [] w
  | Some real =>
      let ex := executing real w in
      match ex with
      | [] => FDone [] w
      | _ => let cands := if Nat.ltb 1 (length ex) then sort_exec ex ks else ex in fchunk fuel real None 0 ks w cands []
      end
  end.
End Fast.
