(* Model/Engine.v — the two backtest simulators as folds over the step index, with EVERYTHING they do in a step (stores, order
   matching, strategy execution, hooks, balances, logging of what was observed) an arbitrary function F of the step index, the
   rows of the input arrays read in that step and the state so far.  Which rows are read is GENERATED from the source
   (Gen/simidx.v: step_accesses / fast_accesses, with their guards).  Rows are read with Python's indexing: a negative bound
   counts from the end of the array. *)
From Coq Require Import ZArith List Bool.
From JV Require Import Gen.simidx.
Import ListNotations.
Local Open Scope Z_scope.

Section Engine.
Context {Row St : Type}.

Definition py_rows (cs : list Row) (lo hi : Z) : list Row :=
  if 0 <=? lo then firstn (Z.to_nat (hi - lo)) (skipn (Z.to_nat lo) cs)
  else (* from the end: rows len+lo .. len+hi-1 (a[-1] is the last row) *)
    let n := Z.of_nat (length cs) in firstn (Z.to_nat (hi - lo)) (skipn (Z.to_nat (n + lo)) cs).

Definition read (cs : list Row) (a : bool * Z * Z) : option (list Row) :=
  let '(g, lo, hi) := a in if g then Some (py_rows cs lo hi) else None.

Variable counts : list Z.          (* minutes of the considered timeframes *)
Variable F : nat -> list (list (option (list Row))) -> St -> St.
Variable P : list (option (list Row)) -> St.       (* the state before the first step, from what _prepare_times_before_simulation reads *)

Definition reads_prep (css : list (list Row)) : list (option (list Row)) :=
  match css with cs :: _ => map (read cs) prep_first | [] => [] end.

(* css: one input array per symbol *)
Definition reads_step (css : list (list Row)) (i : nat) : list (list (option (list Row))) :=
  map (fun cs => flat_map (fun count => map (read cs) (step_accesses (Z.of_nat i) count)) counts) css.
Definition run_step (css : list (list Row)) (m : nat) : St :=
  fold_left (fun s i => F i (reads_step css i) s) (seq 0 m) (P (reads_prep css)).

(* the fast simulator: chunk j covers rows j*step .. j*step+step-1 *)
Definition reads_fast (step : Z) (css : list (list Row)) (j : nat) : list (list (option (list Row))) :=
  map (fun cs => flat_map (fun count => map (read cs) (fast_accesses (Z.of_nat j * step) step count)) counts) css.
Definition run_fast (step : Z) (css : list (list Row)) (k : nat) : St :=
  fold_left (fun s j => F j (reads_fast step css j) s) (seq 0 k) (P (reads_prep css)).
End Engine.
