(* Model/Spot.v — hand-written model of a spot session's accounting (exact rationals):
   SpotExchange.on_order_submission / on_order_execution / on_order_cancellation,
   Order.execute / Order.cancel (early return when final), Position._on_executed_order (backtest branch)
   with Position._update_qty's spot rules.  One traded symbol.  Tied to the code by harness/c04.py. *)
From Coq Require Import ZArith QArith Qcanon List Bool.
From JV Require Import Base.Num.
Import ListNotations.
Local Open Scope Qc_scope.
Import QcI.

Inductive side := Buy | Sell.
Inductive otype := Market | Limit | Stop.
Inductive status := Active | Executed | Canceled.

Record order := { o_id : nat; o_side : side; o_typ : otype; o_qty : Qc (* magnitude *); o_price : Qc;
                  o_ro : bool; o_status : status }.

Definition set_status (o : order) (s : status) : order :=
  {| o_id := o_id o; o_side := o_side o; o_typ := o_typ o; o_qty := o_qty o; o_price := o_price o; o_ro := o_ro o; o_status := s |}.

Record spot := { quote : Qc; base : Qc; stop_sum : Qc; limit_sum : Qc; pqty : Qc; fee : Qc; orders : list order }.

Definition with_orders (s : spot) (os : list order) : spot :=
  {| quote := quote s; base := base s; stop_sum := stop_sum s; limit_sum := limit_sum s; pqty := pqty s; fee := fee s; orders := os |}.

Definition is_sell (o : order) : bool := match o_side o with Sell => true | Buy => false end.
Definition typ_eqb (a b : otype) : bool :=
  match a, b with Market, Market | Limit, Limit | Stop, Stop => true | _, _ => false end.

Inductive result := Accepted | Rejected | Done.
(* the history did not end in a rejected submission *)
Definition ok_end (rs : list result) : bool := match rev rs with Rejected :: _ => false | _ => true end.

(* Order(...) : the constructor calls exchange.on_order_submission; a raise ends the sequence *)
Definition submit (s : spot) (o : order) : spot * result :=
  let q := o_qty o in
  let ss := if is_sell o && typ_eqb (o_typ o) Stop then stop_sum s + q else stop_sum s in
  let ls := if is_sell o && typ_eqb (o_typ o) Limit then limit_sum s + q else limit_sum s in
  match o_side o with
  | Buy =>
      let quote' := quote s - q * o_price o in
      let s' := {| quote := quote'; base := base s; stop_sum := ss; limit_sum := ls; pqty := pqty s; fee := fee s;
                   orders := orders s |} in
      if qltb quote' 0 then (s', Rejected)
      else (with_orders s' (orders s ++ [set_status o Active]), Accepted)
  | Sell =>
      let need := match o_typ o with Market => q + limit_sum s | Stop => ss | Limit => ls end in
      let s' := {| quote := quote s; base := base s; stop_sum := ss; limit_sum := ls; pqty := pqty s; fee := fee s;
                   orders := orders s |} in
      if qltb (base s) need then (s', Rejected)
      else (with_orders s' (orders s ++ [set_status o Active]), Accepted)
  end.

Fixpoint find_order (os : list order) (id : nat) : option order :=
  match os with [] => None | o :: r => if Nat.eqb (o_id o) id then Some o else find_order r id end.
Fixpoint replace_order (os : list order) (o' : order) : list order :=
  match os with [] => [] | o :: r => if Nat.eqb (o_id o) (o_id o') then o' :: r else o :: replace_order r o' end.

Definition is_final (o : order) : bool := match o_status o with Active => false | _ => true end.

(* Position._on_executed_order, backtest branch, spot quantities (signed order qty) *)
Definition position_after (s : spot) (o : order) : Qc :=
  let sq := if is_sell o then - o_qty o else o_qty o in
  let p := pqty s in
  let f := 1 - fee s in
  if qeqb p 0 then sq * f                                   (* open: _update_qty(qty,'set') *)
  else if qeqb (p + sq) 0 then 0                            (* close *)
  else if qltb 0 (p * sq) then (if o_ro o then p else if qltb 0 p then p + o_qty o * f else p - o_qty o) (* increase *)
  else (* opposite direction *)
    if qltb (qabs p) (qabs sq) then (if o_ro o then 0 else (p + sq) * f)      (* oversize: close, or flip *)
    else if qltb 0 p then p - o_qty o else p + o_qty o * f.                     (* reduce *)

Definition execute (s : spot) (id : nat) : spot :=
  match find_order (orders s) id with
  | None => s
  | Some o =>
      if is_final o then s
      else
        let q := o_qty o in
        let ss := if is_sell o && typ_eqb (o_typ o) Stop then stop_sum s - q else stop_sum s in
        let ls := if is_sell o && typ_eqb (o_typ o) Limit then limit_sum s - q else limit_sum s in
        let f := 1 - fee s in
        let '(quote', base') :=
          match o_side o with
          | Buy => (quote s, base s + q * f)
          | Sell => let oq := if qltb (base s) q then base s else q in
                    (quote s + (oq * o_price o) * f, base s - oq)
          end in
        {| quote := quote'; base := base'; stop_sum := ss; limit_sum := ls; pqty := position_after s o; fee := fee s;
           orders := replace_order (orders s) (set_status o Executed) |}
  end.

Definition cancel (s : spot) (id : nat) : spot :=
  match find_order (orders s) id with
  | None => s
  | Some o =>
      if is_final o then s
      else
        let q := o_qty o in
        let ss := if is_sell o && typ_eqb (o_typ o) Stop then stop_sum s - q else stop_sum s in
        let ls := if is_sell o && typ_eqb (o_typ o) Limit then limit_sum s - q else limit_sum s in
        let quote' := match o_side o with Buy => quote s + q * o_price o | Sell => quote s end in
        {| quote := quote'; base := base s; stop_sum := ss; limit_sum := ls; pqty := pqty s; fee := fee s;
           orders := replace_order (orders s) (set_status o Canceled) |}
  end.

Inductive op := Submit (o : order) | Execute (id : nat) | Cancel (id : nat).

(* a rejected submission ends the sequence *)
Fixpoint run (s : spot) (ops : list op) : spot * list result :=
  match ops with
  | [] => (s, [])
  | Submit o :: r =>
      let '(s', res) := submit s o in
      match res with
      | Rejected => (s', [Rejected])
      | _ => let '(s'', rs) := run s' r in (s'', res :: rs)
      end
  | Execute id :: r => let '(s'', rs) := run (execute s id) r in (s'', Done :: rs)
  | Cancel id :: r => let '(s'', rs) := run (cancel s id) r in (s'', Done :: rs)
  end.

Definition init (balance fee_rate : Qc) : spot :=
  {| quote := balance; base := 0; stop_sum := 0; limit_sum := 0; pqty := 0; fee := fee_rate; orders := [] |}.
