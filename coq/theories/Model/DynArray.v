(* Model/DynArray.v — hand-written model of jesse/libs/dynamic_numpy_array/__init__.py
   (class DynamicNumpyArray), method by method.  State: the logical index, the backing
   numpy array (a list of rows, zero rows as padding) and the bucket size.  numpy's own
   semantics for a[i], a[s:e] with non-negative bounds, assignment with length check /
   broadcasting of a single row, np.delete(axis=0) and np.concatenate are written out.
   Tied to the code by harness/c18.py (differential runs of op sequences). *)
From Coq Require Import ZArith List Bool Lia.
From JV Require Import Spec.ListSpec.
Import ListNotations.
Local Open Scope Z_scope.

Section DynArray.
Context {A : Type}.
Variable zero : A.              (* the row np.zeros produces *)
Variable drop_at : option Z.    (* constructor argument *)

Record dyn := { idx : Z; arr : list A; bucket : nat }.

Inductive err := IndexError | ShapeError.
Inductive res := Ok (o : out A) | Err (e : err).

Definition zeros (k : nat) : list A := repeat zero k.
Definition init (b : nat) : dyn := {| idx := -1; arr := zeros b; bucket := b |}.

(* numpy a[i] on the backing array *)
Definition np_pos (l : list A) (i : Z) : option nat :=
  let L := zlen l in
  if (0 <=? i) && (i <? L) then Some (Z.to_nat i)
  else if (- L <=? i) && (i <? 0) then Some (Z.to_nat (L + i))
  else None.

(* numpy a[s:e] for 0 <= s, 0 <= e *)
Definition np_slice (l : list A) (s e : Z) : list A :=
  skipn (Z.to_nat s) (firstn (Z.to_nat e) l).
(* number of rows selected by a[s:e], 0 <= s, 0 <= e *)
Definition np_slice_len (l : list A) (s e : Z) : Z :=
  Z.max 0 (Z.min e (zlen l) - Z.min s (zlen l)).

(* numpy a[s:e] = rs : shapes must agree, a single row is broadcast *)
Definition np_assign (l : list A) (s e : Z) (rs : list A) : option (list A) :=
  let tl := np_slice_len l s e in
  if zlen rs =? tl then Some (upd_range l (Z.to_nat s) rs)
  else match rs with
       | [r] => Some (upd_range l (Z.to_nat (Z.min s (zlen l))) (repeat r (Z.to_nat tl)))
       | _ => None
       end.

(* helpers.np_shift(arr, -k) : shift left by k, fill with zeros *)
Definition shift_left (k : nat) (l : list A) : list A := skipn k l ++ zeros (Nat.min k (length l)).

Definition neg_norm (s : dyn) (b : Z) : Z :=
  if b <? 0 then Z.max (idx s + 1 - Z.abs b) 0 else b.

Definition apply_drop (guard : bool) (i : Z) (a : list A) : Z * list A :=
  match drop_at with
  | Some d =>
      if guard && ((i + 1) mod d =? 0)
      then (i - d / 2, shift_left (Z.to_nat (d / 2)) a)
      else (i, a)
  | None => (i, a)
  end.

Definition step (s : dyn) (o : op A) : dyn * res :=
  match o with
  | Len => (s, Ok (OLen (idx s + 1)))
  | GetI i =>
      let i' := if i <? 0 then idx s + 1 - Z.abs i else i in
      if (idx s =? -1) || (idx s <? i') || (i' <? 0) then (s, Err IndexError)
      else (s, Ok (ORow (nth (Z.to_nat i') (arr s) zero)))
  | GetS lo hi =>
      let start := match lo with None => 0 | Some b => b end in
      let stop := match hi with None => idx s + 1 | Some b => b end in
      let start := neg_norm s start in
      let stop := neg_norm s stop in
      let stop := Z.min stop (idx s + 1) in
      (s, Ok (ORows (np_slice (arr s) start stop)))
  | SetI i r =>
      let i' := if i <? 0 then idx s + 1 - Z.abs i else i in
      if (idx s <? i') || (i' <? 0) then (s, Err IndexError)
      else ({| idx := idx s; arr := upd (arr s) (Z.to_nat i') r; bucket := bucket s |}, Ok ONone)
  | SetS lo hi rs =>
      let start := match lo with None => 0 | Some b => b end in
      let start := neg_norm s start in
      let stop := match hi with None => start + zlen rs | Some b => b end in
      let stop := neg_norm s stop in
      let stop := Z.min stop (idx s + 1) in
      match np_assign (arr s) start stop rs with
      | Some a => ({| idx := idx s; arr := a; bucket := bucket s |}, Ok ONone)
      | None => (s, Err ShapeError)
      end
  | Append r =>
      let i := idx s + 1 in
      let a1 := if zlen (arr s) <=? i + 1 then arr s ++ zeros (bucket s) else arr s in
      let '(i2, a2) := apply_drop (negb (i =? 0)) i a1 in
      match np_pos a2 i2 with
      | Some n => ({| idx := i2; arr := upd a2 n r; bucket := bucket s |}, Ok ONone)
      | None => ({| idx := i2; arr := a2; bucket := bucket s |}, Err IndexError)
      end
  | AppendMany rs =>
      let i := idx s + zlen rs in
      let a1 := if negb (i =? 0) && (zlen (arr s) <=? i + 1)
                then arr s ++ zeros (Nat.max (length rs) (bucket s)) else arr s in
      match np_assign a1 (idx s + 1) (i + 1) rs with
      | Some a2 =>
          let '(i3, a3) := apply_drop (0 <? i) i a2 in
          ({| idx := i3; arr := a3; bucket := bucket s |}, Ok ONone)
      | None => ({| idx := i; arr := a1; bucket := bucket s |}, Err ShapeError)
      end
  | Delete i =>
      let i' := if i <? 0 then idx s + 1 - Z.abs i else i in
      match np_pos (arr s) i' with
      | Some n =>
          let a1 := remove_nth (arr s) n in
          let a2 := if (length a1 <=? bucket s)%nat then a1 ++ zeros (bucket s) else a1 in
          ({| idx := idx s - 1; arr := a2; bucket := bucket s |}, Ok ONone)
      | None => (s, Err IndexError)
      end
  | Flush => (init (bucket s), Ok ONone)
  | Last =>
      if idx s =? -1 then (s, Err IndexError)
      else match np_pos (arr s) (idx s) with
           | Some n => (s, Ok (ORow (nth n (arr s) zero)))
           | None => (s, Err IndexError)
           end
  | Past k =>
      if idx s =? -1 then (s, Err IndexError)
      else if idx s - k <? 0 then (s, Err IndexError)
      else match np_pos (arr s) (idx s - k) with
           | Some n => (s, Ok (ORow (nth n (arr s) zero)))
           | None => (s, Err IndexError)
           end
  end.

Fixpoint run (s : dyn) (ops : list (op A)) : list res :=
  match ops with
  | [] => []
  | o :: r => let '(s', x) := step s o in x :: run s' r
  end.

(* abstraction function: the logical content *)
Definition abs (s : dyn) : list A := firstn (Z.to_nat (idx s + 1)) (arr s).

End DynArray.
Arguments dyn : clear implicits.
Arguments res : clear implicits.
