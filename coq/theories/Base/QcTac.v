(* Base/QcTac.v — reflection lemmas and tactics for the Qc instance of Num. Axiom-free. *)
From Coq Require Import ZArith QArith Qcanon Lqa Bool.
From JV Require Import Base.Num.
Local Open Scope Qc_scope.
Import QcI.

Lemma cmpT (x y : Q) : CompareSpecT (x == y)%Q (x < y)%Q (y < x)%Q (x ?= y)%Q.
Proof. apply CompareSpec2Type, Qcompare_spec. Qed.
Lemma qleb_spec x y : reflect (x <= y) (qleb x y).
Proof. unfold qleb, Qcle, Qccompare. destruct (cmpT (this x) (this y)); constructor; lra. Qed.
Lemma qltb_spec x y : reflect (x < y) (qltb x y).
Proof. unfold qltb, Qclt, Qccompare. destruct (cmpT (this x) (this y)); constructor; lra. Qed.
Lemma qeqb_spec x y : reflect (x = y) (qeqb x y).
Proof. unfold qeqb, Qccompare. destruct (cmpT (this x) (this y)); constructor.
  - now apply Qc_is_canon. - intros ->; lra. - intros ->; lra. Qed.

Lemma eq_Q (a b : Qc) : a = b -> (this a == this b)%Q.
Proof. intros ->. reflexivity. Qed.
Lemma neq_Q (a b : Qc) : a <> b -> ~ (this a == this b)%Q.
Proof. intros H E. apply H, Qc_is_canon, E. Qed.

Lemma this_plus x y : (this (x + y) == this x + this y)%Q. Proof. unfold Qcplus, Q2Qc; cbn [this]. apply Qred_correct. Qed.
Lemma this_mult x y : (this (x * y) == this x * this y)%Q. Proof. unfold Qcmult, Q2Qc; cbn [this]. apply Qred_correct. Qed.
Lemma this_opp x : (this (- x) == - this x)%Q. Proof. unfold Qcopp, Q2Qc; cbn [this]. apply Qred_correct. Qed.
Lemma this_minus x y : (this (x - y) == this x - this y)%Q. Proof. unfold Qcminus. rewrite this_plus, this_opp. reflexivity. Qed.
Lemma this_inv x : (this (/ x) == / this x)%Q. Proof. unfold Qcinv, Q2Qc; cbn [this]. apply Qred_correct. Qed.
Lemma this_div x y : (this (x / y) == this x / this y)%Q. Proof. unfold Qcdiv, Qdiv. rewrite this_mult, this_inv. reflexivity. Qed.

(* break every comparison of the Qc instance that occurs in the goal *)
Ltac brk :=
  repeat match goal with
  | |- context [qleb ?a ?b] => destruct (qleb_spec a b)
  | |- context [qltb ?a ?b] => destruct (qltb_spec a b)
  | |- context [qeqb ?a ?b] => destruct (qeqb_spec a b)
  end.
Ltac brk_in H :=
  repeat match type of H with
  | context [qleb ?a ?b] => destruct (qleb_spec a b)
  | context [qltb ?a ?b] => destruct (qltb_spec a b)
  | context [qeqb ?a ?b] => destruct (qeqb_spec a b)
  end.

(* order goals on Qc whose atoms are variables: move to Q and call lra *)
Ltac qc :=
  unfold Qcle, Qclt in *;
  repeat match goal with
  | H : @eq Qc ?a ?b |- _ => apply eq_Q in H
  | H : ?a <> ?b :> Qc |- _ => apply neq_Q in H
  end;
  change (this 0%Qc) with 0%Q in *; change (this 1%Qc) with 1%Q in *;
  try lra.

(* the same, after pushing `this` through +,-,*,opp *)
Ltac qc_arith :=
  unfold Qcle, Qclt in *;
  repeat match goal with
  | H : @eq Qc ?a ?b |- _ => apply eq_Q in H
  | H : ?a <> ?b :> Qc |- _ => apply neq_Q in H
  | |- @eq Qc ?a ?b => apply Qc_is_canon
  end;
  repeat (progress rewrite ?this_plus, ?this_minus, ?this_mult, ?this_opp, ?this_div in * );
  change (this 0%Qc) with 0%Q in *; change (this 1%Qc) with 1%Q in *.
