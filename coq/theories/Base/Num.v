(* Base/Num.v — the numeric interface the generated kernels are written against, and its two
   instances: exact rationals (Qc, used in proofs and lattice-exact correspondence) and IEEE
   binary64 (PrimFloat, used for bit-exact runs and float refutations). *)
From Coq Require Import ZArith QArith Qcanon Qround Bool.
From Coq Require PrimFloat FloatOps SpecFloat Uint63.

Record Num := {
  T :> Type;
  add : T -> T -> T; sub : T -> T -> T; mul : T -> T -> T; div : T -> T -> T;
  opp : T -> T; nabs : T -> T;
  leb : T -> T -> bool; ltb : T -> T -> bool; eqb : T -> T -> bool;
  ofZ : Z -> T;
  lit : Z -> Z -> T;            (* lit m e = m * 2^e : the exact value of a float literal *)
  floorZ : T -> Z;              (* math.floor *)
  roundZ : T -> Z;              (* round(x) : half to even *)
  isnan : T -> bool
}.

(* Python's min/max return the first argument unless the second is strictly better *)
Definition nmin {N : Num} (a b : N) : N := if ltb N b a then b else a.
Definition nmax {N : Num} (a b : N) : N := if ltb N a b then b else a.

(* ------------------------------------------------------------------ Qc *)
Module QcI.
Local Open Scope Qc_scope.
Definition qleb (x y : Qc) : bool := match x ?= y with Gt => false | _ => true end.
Definition qltb (x y : Qc) : bool := match x ?= y with Lt => true | _ => false end.
Definition qeqb (x y : Qc) : bool := match x ?= y with Eq => true | _ => false end.
Definition qabs (x : Qc) : Qc := if qltb x 0 then - x else x.
Definition qofZ (z : Z) : Qc := Q2Qc (inject_Z z).
Definition qlit (m e : Z) : Qc :=
  if (0 <=? e)%Z then Q2Qc (inject_Z (m * 2 ^ e)) else Q2Qc (Qmake m (Z.to_pos (2 ^ (- e)))).
Definition qfloor (x : Qc) : Z := Qfloor (this x).
Definition qround (x : Qc) : Z :=
  let f := Qfloor (this x) in
  let d := x - qofZ f in
  let half := Q2Qc (1 # 2) in
  if qltb d half then f
  else if qltb half d then (f + 1)%Z
  else if Z.even f then f else (f + 1)%Z.
End QcI.

Definition QcNum : Num := {|
  T := Qc; add := Qcplus; sub := Qcminus; mul := Qcmult; div := Qcdiv; opp := Qcopp; nabs := QcI.qabs;
  leb := QcI.qleb; ltb := QcI.qltb; eqb := QcI.qeqb; ofZ := QcI.qofZ; lit := QcI.qlit;
  floorZ := QcI.qfloor; roundZ := QcI.qround; isnan := fun _ => false |}.

(* ------------------------------------------------------------------ binary64 *)
Module FI.
Import PrimFloat FloatOps SpecFloat.
Local Open Scope float_scope.

Definition of_pos (p : positive) : float :=
  (* exact for p < 2^63; larger integers go through SF2Prim with correct rounding of the
     mantissa done by normalisation (binary_normalize is not available here, so we only
     support |z| < 2^63, which covers every integer the kernels build) *)
  of_uint63 (Uint63.of_Z (Zpos p)).
Definition fofZ (z : Z) : float :=
  match z with Z0 => 0 | Zpos p => of_pos p | Zneg p => - of_pos p end.
Definition flit (m e : Z) : float := Z.ldexp (fofZ m) e.

(* value of a finite double as floor / round *)
Definition ffloor (x : float) : Z :=
  match Prim2SF x with
  | S754_finite s m e =>
      if (0 <=? e)%Z then (if s then - (Zpos m * 2 ^ e) else Zpos m * 2 ^ e)%Z
      else let d := (2 ^ (- e))%Z in
           if s then (- ((Zpos m + d - 1) / d))%Z else (Zpos m / d)%Z
  | _ => 0%Z
  end.
Definition fround (x : float) : Z :=
  match Prim2SF x with
  | S754_finite s m e =>
      if (0 <=? e)%Z then (if s then - (Zpos m * 2 ^ e) else Zpos m * 2 ^ e)%Z
      else let d := (2 ^ (- e))%Z in
           let q := (Zpos m / d)%Z in let r := (Zpos m mod d)%Z in
           let a := (if (2 * r <? d)%Z then q
                     else if (d <? 2 * r)%Z then q + 1
                     else if Z.even q then q else q + 1)%Z in
           if s then (- a)%Z else a
  | _ => 0%Z
  end.
End FI.

Definition FNum : Num := {|
  T := PrimFloat.float; add := PrimFloat.add; sub := PrimFloat.sub; mul := PrimFloat.mul; div := PrimFloat.div;
  opp := PrimFloat.opp; nabs := PrimFloat.abs;
  leb := PrimFloat.leb; ltb := PrimFloat.ltb; eqb := PrimFloat.eqb; ofZ := FI.fofZ; lit := FI.flit;
  floorZ := FI.ffloor; roundZ := FI.fround; isnan := PrimFloat.is_nan |}.

(* ------------------------------------------------------------------ results of kernels that may raise *)
Inductive Res (A : Type) := Val (v : A) | Nan | Raise.
Arguments Val {A} v. Arguments Nan {A}. Arguments Raise {A}.
Definition bindR {A B} (r : Res A) (f : A -> Res B) : Res B :=
  match r with Val v => f v | Nan => Nan | Raise => Raise end.

(* candle rows: [timestamp, open, close, high, low, volume] *)
Record candle (N : Num) := mkC { c_ts : N; c_open : N; c_close : N; c_high : N; c_low : N; c_vol : N }.
Arguments mkC {N}. Arguments c_ts {N}. Arguments c_open {N}. Arguments c_close {N}.
Arguments c_high {N}. Arguments c_low {N}. Arguments c_vol {N}.
