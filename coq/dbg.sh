#!/bin/bash
# usage: dbg.sh file line  -> shows goals just before `line`
f=$1; n=$2
head -n $((n-1)) $f > /tmp/dbg_$$.v
echo "Show. Abort All." >> /tmp/dbg_$$.v
cd /verif/coq && timeout 300 coqc -R theories JV /tmp/dbg_$$.v 2>&1 | tail -${3:-60}
rm -f /tmp/dbg_$$.*
