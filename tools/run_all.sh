#!/bin/bash
# run every registered check (quick) on the current tree, refreshing evidence/; prints one summary line each
cd /verif
ids=$(python3 -c "import json;print(' '.join(c['property_id'] for c in json.load(open('MANIFEST.json'))['checks']))")
for id in ${@:-$ids}; do
  ./check $id --tier quick > build/last_$id.log 2>&1; rc=$?
  echo "$id rc=$rc $(grep -c '^VIOLATION' build/last_$id.log) violations; $(tail -1 build/last_$id.log | cut -c1-150)"
done
python3-vt - <<'PY'
import json,jsonschema,glob
sch=json.load(open('/root/.vp/EVIDENCE.schema.json'))
for f in sorted(glob.glob('/verif/evidence/*.json')):
    e=json.load(open(f)); jsonschema.validate(e,sch)
    c=e['coverage']; assert c['obligations']==c['discharged'], (f,c['obligations'],c['discharged'])
print('evidence valid')
PY
