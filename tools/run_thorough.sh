#!/bin/bash
# thorough tier of every registered check on the clean tree, in sequence (evidence is rewritten by each; run tools/run_all.sh afterwards to restore the quick evidence)
cd /verif
test -z "$(git -C /repo status --porcelain)" || { echo "/repo is not clean"; exit 2; }
for id in $(python3 -c "import json; print(' '.join(c['property_id'] if 'property_id' in c else c['id'] for c in json.load(open('MANIFEST.json'))['checks']))"); do
  s=$(date +%s); out=$(./check $id --tier thorough --seed ${1:-11} 2>&1); rc=$?
  echo "$id rc=$rc $(( $(date +%s) - s ))s $(echo "$out" | grep -c VIOLATION) violations; $(echo "$out" | grep "^\[$id\]")"
  echo "$out" | grep "VIOLATION\|FAILED" | head -5
done
