#!/usr/bin/env python3
"""apply every kept seeded change to /repo in turn, run the quick check of its property, record what was reported, restore /repo.
Writes seeded/MATRIX.json and seeded/MATRIX.md.  /repo must be clean; nothing else may use /repo meanwhile."""
import json, os, re, subprocess, sys
def sh(c): return subprocess.run(c, shell=True, stdout=subprocess.PIPE, stderr=subprocess.STDOUT, text=True)
assert sh('git -C /repo status --porcelain').stdout.strip() == '', '/repo is not clean'
rows = []
ids = sys.argv[1:] or sorted(d for d in os.listdir('/verif/seeded') if os.path.isdir(f'/verif/seeded/{d}'))
for d in ids:
    pid = d.split('_')[0]
    a = sh(f'git -C /repo apply /verif/seeded/{d}/patch.diff')
    try:
        r = sh(f'cd /verif && ./check {pid} --tier quick')
    finally:
        sh('git -C /repo checkout -- .')
    out = r.stdout
    viol = re.findall(r'VIOLATION property=(\S+) replay=(\S+)(.*)', out)
    concrete = [v for v in viol if 'no-failing-input-found' not in v[2]]
    failed = re.findall(r'FAILED obligation: (.*)', out)
    meta = json.load(open(f'/verif/seeded/{d}/meta.json'))
    rows.append({'change': d, 'file': re.findall(r'\+\+\+ b/(\S+)', open(f'/verif/seeded/{d}/patch.diff').read()), 'summary': meta.get('summary', '')[:160],
                 'exit': r.returncode, 'violations': len(viol), 'with_concrete_input': len(concrete), 'proof_or_tie_broken': [f[:110] for f in failed]})
    print(d, 'exit', r.returncode, 'violations', len(viol), 'concrete', len(concrete), 'broken:', '; '.join(f[:60] for f in failed), flush=True)
if sys.argv[1:] and os.path.exists('/verif/seeded/MATRIX.json'):
    old = {r['change']: r for r in json.load(open('/verif/seeded/MATRIX.json'))}
    for r in rows: old[r['change']] = r
    rows = [old[k] for k in sorted(old)]
json.dump(rows, open('/verif/seeded/MATRIX.json', 'w'), indent=1)
with open('/verif/seeded/MATRIX.md', 'w') as f:
    f.write('| seeded change | files | check exit | VIOLATION lines | with a concrete failing input | proof / tie obligations that broke |\n|---|---|---|---|---|---|\n')
    for r in rows:
        f.write(f"| {r['change']} | {', '.join(r['file'])} | {r['exit']} | {r['violations']} | {r['with_concrete_input']} | {'; '.join(r['proof_or_tie_broken']) or '-'} |\n")
print('caught', sum(1 for r in rows if r['exit'] == 1 and r['violations']), 'of', len(rows))
