#!/usr/bin/env python3
"""regenerate /verif/MANIFEST.json from the table below (kept valid at all times)"""
import json, os
V = '/verif'
CHECKS = {
 'C18': dict(
   text='Machine-checked refinement (Coq 8.16): for every bucket size, drop_at and operation sequence valid on a Python list, the model of '
        'DynamicNumpyArray returns exactly what the list spec returns (induction over the op list, invariant on index/backing array), hence '
        'never raises; drop-oldest content is a suffix of the history. The model is tied to the class on every run by differential execution '
        '(random long histories + exhaustive short mutator sequences, compared inside Coq), and the list spec is evaluated on the '
        'implementation\'s own observations to find a concrete failing history when the tie or a proof breaks.',
   note='Trusted: Coq kernel + vm_compute; hand-written model Model/DynArray.v (numpy semantics of indexing/slicing/assignment/delete/concatenate '
        'written out); harness/c18.py. Axiom-free (Print Assumptions: closed). Aliasing of returned views and slice steps are not modelled.',
   tech='Rocq proof: refinement to list spec by induction + model/implementation correspondence', ref='DESIGN.md sections 0.2 and 6 (C18)'),
}
CHECKS['C01'] = dict(
   text='Machine-checked theorems over the reads of the input candle arrays that the two simulators make in each step, REGENERATED with their guards from '
        'backtest_mode.py on every run (the generator refuses any other use of the input inside the simulators): every read in step i lies inside the rows that '
        'end before the step ends (no negative, from-the-end index; no slice reaching past the step), hence for an ARBITRARY engine behaviour F (stores, matching, '
        'strategy, hooks, recording of observations), any timeframes and any number of symbols, two inputs that agree before t give the same state after the '
        'steps that end before t - for every t in the normal simulator and for t on a chunk boundary in the fast one. The predicted reads over whole runs are '
        'compared inside Coq with the reads recorded on the real arrays, and a two-run differential on the real engine searches for a concrete look-ahead.',
   note='Trusted: Coq kernel + vm_compute; translator/simidx.py (output validated against recorded reads each run); harness/c01.py, engine.py. Assumes the engine '
        'reaches the input only through the extracted reads (enforced syntactically, fail-closed). Axiom-free.',
   tech='Rocq proof over source-regenerated access lists + arbitrary-engine fold; recorded-read correspondence; two-run differential search', ref='DESIGN.md sections 0.2 and 6 (C01)')
CHECKS['C02'] = dict(
   text='Machine-checked theorems (exact rationals; candle_includes_price / split_candle REGENERATED from /repo each run) about the per-minute match loop with the '
        'strategy layer as an ARBITRARY function of the fill: an order resting at the start of a minute whose price is inside the (gap-extended) range and which '
        'is not cancelled IS filled in that minute (uses the first-touch ordering theorem and a new lemma that the earlier-touched fill leaves every later-touched '
        'price inside the remainder); fills happen only inside the range and the partial candle closes at the order price; nothing in range is left at the end; '
        'execute_pending_market_orders settles every queued MARKET order for every assignment of position effects. The loop model is run in Coq against the real '
        '_simulate_price_change_effect with scripted reactions, and a Coq monitor (the property as a state machine deciding with the generated kernels at binary64) '
        'is evaluated on the submit/cancel/execute/matcher event streams of real sessions in both simulators.',
   note='Trusted: Coq kernel + vm_compute; translator; hand-written Model/Match.v and Model/Lifecycle.v tied by correspondence; harness/c02.py, engine.py, driver.py. '
        'The fast simulator\'s chunk loop is covered by the monitor, not by a theorem. Axiom-free.',
   tech='Rocq proof over source-regenerated kernels + match-loop model with arbitrary reactions; loop correspondence; Coq monitor on real event streams', ref='DESIGN.md sections 0.2 and 6 (C02)')
CHECKS['C06'] = dict(
   text='Machine-checked theorems (exact rationals) over a model of what a symbol\'s fills do (trade record, fee, position_fill, previous_qty, hook classification, '
        'ClosedTrade fields): for every REGULAR fill sequence (no reduce-only order larger than the position, no flip) the hooks form open/(increase|reduce)*/close '
        'cycles, every fill fires exactly the matching hook with the size the fills imply, the closed trades are exactly the cycles of the fill sequence, and the '
        'wallet equals start + net PnL (ClosedTrade.pnl, profit minus fees) of the closed trades + the open cycle\'s realised part - an invariant proved by '
        'induction with average-cost bookkeeping. Outside the regular fills the statement is REFUTED by two machine-checked witnesses (full-size stop after a partial '
        'take-profit; flip), recorded as known findings. The model is run in Coq against the real Order/Position/ClosedTrades/Strategy objects fill by fill '
        '(regular and irregular), and Coq monitors in the theorems\' vocabulary are evaluated on the traces of real sessions.',
   note='Trusted: Coq kernel + vm_compute; hand-written Model/Trades.v (+ Model/Futures.position_fill) tied by correspondence; harness/c06.py, driver.py, engine.py. '
        'Spot sessions (fee taken in the base asset) are outside the model. Axiom-free.',
   tech='Rocq proof by invariant over fill sequences + refutation witnesses; object-level correspondence; Coq monitors on real session traces', ref='DESIGN.md sections 0.2 and 6 (C06)')
CHECKS['C07'] = dict(
   text='Machine-checked theorem (exact rationals, every timeframe length n>0 and every store content): whenever the stored higher-timeframe candles are the '
        'aggregations of the complete windows, optionally followed by one stale partial candle of the running window (the invariant the simulators maintain), '
        'get_candles returns exactly one candle per started window and each equals the aggregation (first open, last close, max high, min low, summed volume) of '
        'the 1m candles of that window; the normal simulator\'s minute-by-minute feed (incl. the partial candles published at fills, with its timestamp arithmetic) is proved to keep that invariant by induction, so the views are aggregations at every minute; plus the aggregation function spec and agreement of the timeframe tables regenerated from /repo. The store/feed model '
        '(add_candle, partial-candle publication at fills, window completion) is run inside Coq against the raw stores of real sessions, and the Coq '
        'aggregation spec is evaluated on what strategies actually read at hook invocations (incl. hooks fired by mid-window fills) in both simulators.',
   note='Trusted: Coq kernel + vm_compute; hand-written Model/CandleView.v, Model/CandleStore.v tied by correspondence; harness/c07.py + engine.py. '
        'The normal simulator is proved to keep the invariant (for every aligned series and any fills); the fast simulator and warm-up injection are covered by the monitor. Axiom-free.',
   tech='Rocq proof over hand model + store correspondence inside Coq + aggregation monitor on real hook observations', ref='DESIGN.md sections 0.2 and 6 (C07)')
CHECKS['C08'] = dict(
   text='Machine-checked theorems (Coq 8.16, exact rationals) about the split_candle / candle_includes_price / gap-normalisation code REGENERATED from '
        '/repo on every run by a fail-closed Python-AST translator: totality and validity of the split on the whole range, the later half walks '
        'exactly the rest of the open-low-high-close (or open-high-low-close) path from the first touch of the split price, the candidate the match '
        'loop fills next is one the path touches first, and every terminating run of the match loop - for an arbitrary reaction of the strategy layer '
        'to fills - fills at the order price inside the remaining path and leaves no active order inside what remains. A source change alters the '
        'generated definitions and breaks the proof; Coq monitors evaluated on the implementation outputs then produce the concrete replay.',
   note='Trusted: Coq kernel + vm_compute; translator py2v (re-validated bit-for-bit against the Python functions on every run); hand-written Model/Match.v '
        '(match loop, stable sorts) tied by correspondence with _sort_execution_orders; harness/c08.py. Axiom-free. Theorems are over exact rationals '
        '(the code only compares/copies prices).',
   tech='Rocq proof over source-regenerated kernels + match-loop model; translation validation; monitors on implementation outputs', ref='DESIGN.md sections 0.2 and 6 (C08)')
CHECKS['C19'] = dict(
   text='Machine-checked theorems (exact rationals) over the convert_number kernel and the alphabet constant REGENERATED from /repo each run: every '
        'gene of the 80-letter alphabet decodes into [min,max], monotonically, first letter -> min, last -> max; int parameters with integer bounds '
        'give in-range integers (round-half-even model), position-locality of dna_to_hp, and precedence explicit > dna() > defaults. The zip loop '
        'and precedence are a hand model tied by bit-exact correspondence with helpers.dna_to_hp and by 8 real research.backtest sessions that record '
        'self.hp. The binary64 end-point clause is refuted by a kernel-evaluated witness (known finding F6); a Coq monitor checks all clauses on the '
        'implementation values for the whole alphabet.',
   note='Trusted: Coq kernel + vm_compute (PrimFloat primitives for the float witness/correspondence), translator py2v (validated bit-for-bit), '
        'Model/Hp.v, harness/c19.py. Range/monotonicity theorems are exact-arithmetic statements; binary64 rounding is covered by the monitor only.',
   tech='Rocq proof over source-regenerated kernel + correspondence + monitor on implementation outputs', ref='DESIGN.md sections 0.2 and 6 (C19)')
CHECKS['C11'] = dict(
   text='Machine-checked theorems over a model of the process-global state as cells and of a session as a fixed prologue (get_config memo cleared, configuration '
        'entries and store re-created from the arguments) followed by an ARBITRARY program: the frame property (a run depends only on what it reads before writing), '
        'hence the session returns the same result from any two process states that differ only in cells the prologue overwrites - whatever ran before, completed or '
        'aborted; and a witness that without the (complete) clear a stale memo entry wins. That the code\'s prologue/epilogue have this shape is checked on /repo each '
        'run, fail-closed. A subprocess differential (histories of earlier calls incl. aborted ones, then a probe, vs the probe in a fresh process; arguments '
        'fingerprinted) searches the rest of the process state, which the model does not name.',
   note='Trusted: Coq kernel; translator/purity.py; harness/c11.py + c11_worker.py. Process-global state outside the modelled cells (module singletons, functools/numba '
        'caches) is covered by the search only: partial. Axiom-free.',
   tech='Rocq proof (frame/noninterference over cell programs) + syntactic shape check of the prologue + subprocess differential search', ref='DESIGN.md sections 0.2 and 6 (C11)')
CHECKS['C12'] = dict(
   text='Machine-checked theorems: (i) the path candles the fast matcher walks are exactly the normal simulator\'s gap-normalised minute candles (generated '
        'fix_jump reads only the previous close and keeps the close); (ii) from the read lists, execution tests and chunk length REGENERATED from backtest_mode.py: the chunk '
        'length divides every route timeframe, the fast simulator builds higher-timeframe candles and runs routes exactly when, and from the rows from which, the normal '
        'one does at the chunk\'s last minute, and the normal one does neither inside a chunk; (iii) for a chunk with at most one resting order inside its range and '
        'ANY strategy reaction that does not read the partial candle and places nothing inside the chunk, the fast chunk matcher and the normal simulator '
        '(gap normalisation + per-minute matcher) fill the same order in the same minute and leave the same orders (induction over the chunk). The fast matcher model '
        'is run in Coq against the real one with scripted reactions, and real sessions satisfying the hypothesis are run in both simulators and compared.',
   note='Trusted: Coq kernel + vm_compute; translators; hand-written Model/Match.v, Model/FastMatch.v tied by correspondence; harness/c12.py, engine.py, driver.py. '
        'Whole-session equality is searched, not proved. Axiom-free.',
   tech='Rocq proof over regenerated kernels/read lists + two matcher models (chunk equivalence by induction); matcher correspondence; fast-vs-normal differential', ref='DESIGN.md sections 0.2 and 6 (C12)')
CHECKS['C13'] = dict(
   text='Machine-checked theorems: every series produced by a state machine (Mealy machine: any state, any step) is causal, causality is closed under composition and '
        'pointwise combination, hence each of the 29 modelled core series (sma, ema, wma, trima, roc, mom, var, wilders, dema, tema, macd line/signal/hist, rsi, atr, obv, '
        'donchian x3, willr, stochastic %K, typical/median price, money flow index, Keltner x3 - written as state machines in jesse\'s seeding/NaN conventions, exact rationals) computed on a prefix '
        'equals the prefix of the series on the whole input, for every period and input. The models are evaluated in Coq against jesse.indicators on every run. All '
        '~168 public indicators with a sequential mode are additionally put through a prefix monitor on the implementation.',
   note='Trusted: Coq kernel + vm_compute; hand-written Model/Indicators.v tied by value correspondence (relative 1e-8); harness/c13.py, ind.py. The theorem covers the '
        'modelled core only; for the other ~145 indicators the property is monitored, not proved: partial. Axiom-free.',
   tech='Rocq proof (causality of state machines + closure lemmas) over hand models + value correspondence + prefix monitor over all indicators', ref='DESIGN.md sections 0.2 and 6 (C13)')
CHECKS['C14'] = dict(
   text='Machine-checked theorems: for the shape of the public indicator functions - slice the candles to the warm-up window unless sequential, compute ANY series F, '
        'return it or its last entry - the single value is the last entry of the sequential result on inputs within the window, and on longer inputs it is the last entry '
        'of the sequential result on the trailing window; every state machine, and each of the 29 modelled core series, returns exactly one entry per input. Which of '
        'the ~170 indicator files literally have that shape is classified syntactically on /repo each run; the core models are evaluated in Coq against jesse.indicators; '
        'and a monitor checks all public indicators (every field: one entry per candle, last = single, long input = trailing window) at lengths below/at/above 240.',
   note='Trusted: Coq kernel + vm_compute; hand-written Model/Indicators.v; harness/c14.py (AST shape classifier), ind.py. One-entry-per-candle is proved for the modelled '
        'core only; the rest is monitored: partial. Axiom-free.',
   tech='Rocq proof (shape theorem for arbitrary F + state-machine lengths) + syntactic shape classification + value correspondence + monitor over all indicators', ref='DESIGN.md sections 0.2 and 6 (C14)')
CHECKS['C15'] = dict(
   text='Machine-checked theorems over textbook definitions of the core indicators written as state machines in exact rationals: RSI in [0,100] for every series and period, '
        'Williams %R in [-100,0] and stochastic %K in [0,100] for every series of candles with low <= close <= high, Donchian lower <= middle <= upper and the channel '
        'encloses every candle of the window, ATR and variance never negative (variance via n*sum(x^2) >= (sum x)^2, proved by induction), the money flow index in [0,100] for candles with non-negative prices and volumes, Keltner lower <= middle <= upper (defined at the same indices, any multiplier >= 0), and SMA, EMA, WMA, TRIMA, Wilder\'s smoothing, DEMA, TEMA, the three MACD series and (for factors >= 0) ATR scale linearly with '
        'price. The definitions are evaluated in Coq against jesse.indicators (that is the agreement-with-an-independent-implementation clause, 29 series), and range, '
        'ordering, selector and scaling monitors run on the implementation for the whole list of the property.',
   note='Trusted: Coq kernel + vm_compute; hand-written Model/Indicators.v tied by value correspondence (relative 1e-8); harness/c15.py, ind.py. Indicators that need '
        'square roots (stddev, Bollinger, Keltner with non-EMA, CCI constant) and the ADX family are monitored, not modelled: partial. Axiom-free.',
   tech='Rocq proof of ranges/orderings/homogeneity over definitional models + value correspondence in Coq + implementation monitors', ref='DESIGN.md sections 0.2 and 6 (C15)')
CHECKS['C16'] = dict(
   text='Machine-checked theorems over the trade-list metrics written as plain definitions (exact rationals), for EVERY list of trades: total = winners + losers + '
        'break-even; net profit = sum of PnL = gross profit + gross loss; longs + shorts = total and the two percentages sum to 100; win rate lies in [0,1] and '
        'win_rate*(W+L) = W; expectancy*(W+L) = net profit (all four win/loss cases); the largest win / loss bound the winners / losers and are the PnL of one of them; the winning (losing) streak is the length of the longest block of consecutive winners '
        '(losers) - no block is longer, one is as long - and the current streak the signed run at the end; the drawdown at sample k is equity_k / max(equity_0..k) - 1, and for every positive equity series the '
        'maximum drawdown is one of these values and lies in (-1, 0]; every counting and summing metric (total, winners, losers, net/gross profit and loss, fee, long/short counts, win rate, averages, expectancy) is the same for every permutation of the trade list, and the average win (loss) lies between 0 and the largest win (loss). The definitions are evaluated in Coq against services/metrics.trades on synthetic trade lists (22 reported values each); '
        'the ratio metrics are compared with an independent recomputation of their standard definitions; the equity samples of real multi-day sessions are recomputed '
        'independently at the moment they are taken.',
   note='Trusted: Coq kernel + vm_compute; hand-written Model/Metrics.v tied by value correspondence; harness/c16.py, driver.py, engine.py. Sharpe/Sortino/Calmar/Omega/annual '
        'return and the equity-sampling clauses are monitored, not proved: partial. Axiom-free.',
   tech='Rocq proof of the metric identities over definitional models + value correspondence in Coq + ratio and equity-sample monitors', ref='DESIGN.md sections 0.2 and 6 (C16)')
CHECKS['C17'] = dict(
   text='Machine-checked theorems (exact rationals) over size_to_qty, risk_to_qty, risk_to_size, limit_stop_loss, floor_with_precision and the timeframe '
        'tables REGENERATED from /repo each run: cost incl. fees <= capital, risk <= requested share, at most one precision step below the exact quotient, '
        'stop-loss limiting never widens risk, live-mode rounding never rounds up except to the minimum unit, both timeframe tables agree, '
        'max_timeframe returns a longest member, anchor_timeframe is strictly longer. Binary64 overshoot is refuted by a kernel-evaluated witness '
        '(known findings F5/F5r/F5l). Coq monitors in exact arithmetic run on the implementation outputs; fresh real Spot/Futures accounts must accept '
        'the computed quantity; decimal helpers are tested against exact decimal arithmetic (tested, not proved).',
   note='Trusted: Coq kernel + vm_compute, translator py2v (validated bit-for-bit), Model/Rounding.v (numpy scalar path, corresponded), harness/c17.py + '
        'driver.py. sum_floats/subtract_floats decimal exactness is search-only. Fee rates above 1/3 excluded in the risk_to_qty theorem.',
   tech='Rocq proof over source-regenerated kernels + translation validation + exact-arithmetic monitors on implementation outputs', ref='DESIGN.md sections 0.2 and 6 (C17)')
CHECKS['C20'] = dict(
   text='Machine-checked theorems over hand-written models of _fill_absent_candles (one candle per minute on the grid, provided candles kept, gaps flat at '
        'the previous close / first open - for every batch and interval) and of CandlesState.add_candle / add_multiple_1m_candles (add_candle equals the '
        'append-or-replace-or-ignore specification on every strictly increasing store; every history of additions leaves strictly increasing timestamps). '
        'The models are tied to the code on every run by differential execution compared inside Coq: every subset of present minutes up to the bound, random '
        'long intervals with duplicates/off-grid/shuffled batches, random add histories incl. bulk batches; plus the spacing rejection of research.backtest.',
   note='Trusted: Coq kernel + vm_compute; Model/Import.v and Model/CandleStore.v (hand-written; pydash.find = first match; live-mode branches not modelled); '
        'harness/c20.py. Axiom-free. Relies on C18 for the backing array.',
   tech='Rocq proof (spec equality + invariant over all histories) + model/implementation correspondence', ref='DESIGN.md sections 0.2 and 6 (C20)')
CHECKS['C04'] = dict(
   text='Machine-checked refinement (exact rationals): for every starting balance, fee in [0,1) and every well-formed history of submit/cancel/execute '
        '(any length; fresh ids, positive qty/price, sells executed while covered) the hand-written model of SpotExchange + Order + Position takes the '
        'reference cash account\'s accept/reject decisions, shows its quote/base balances, never negative, position = base, and its cached resting-sell '
        'totals equal the totals over the active sell orders after any number of cancellations (the invariant the double-subtraction defect F3 broke). '
        'Outside well-formedness the statement is refuted by a kernel-evaluated witness (known finding F17, replayed on the real objects). The model is '
        'tied to the real objects after every operation (exact comparison inside Coq) and the reference account is evaluated on the implementation\'s own '
        'observations.',
   note='Trusted: Coq kernel + vm_compute; Model/Spot.v (hand-written); harness/c04.py + driver.py (inert strategy attached). Exact arithmetic: inputs are '
        'short decimals / dyadic values for which Decimal(str(x)) arithmetic is exact (checked per observation); a third stream (eight-decimal quantities, basis-point fees, arbitrary prices: inexact float products) is compared up to 1e-10 on histories kept away from the rejection boundary.',
   tech='Rocq proof: refinement to a reference account by invariant over all histories + exact model/implementation correspondence', ref='DESIGN.md sections 0.2 and 6 (C04)')
CHECKS['C03'] = dict(
   text='Machine-checked refinement (exact rationals): for every wallet, leverage, fee, number of symbols sharing the wallet and every legal history of '
        'submit/cancel/execute/price moves (any length) the hand-written model of FuturesExchange + Order + Position shows the reference average-cost margin '
        'account\'s accept/reject decisions (rejected exactly when notional/leverage exceeds the available margin), wallet, available margin, position '
        'size, average entry and unrealised PnL; the invariant is that the two margin tables are a permutation of the active non-reduce-only orders. The '
        'position update is proved equal to the closing-part/opening-part average-cost fill; reduce-only fills never increase or flip; submit followed by '
        'cancel restores the available margin exactly. The model is tied to the real objects after every operation and the reference account is evaluated '
        'by Coq on the implementation\'s own observations.',
   note='Trusted: Coq kernel + vm_compute; Model/Futures.v (hand-written); harness/c03.py + driver.py (inert strategy attached, mark prices set by the harness). '
        'Theorems are exact-arithmetic; the implementation is compared up to a relative 1e-9 with decisions exact on histories whose decision margins exceed 1e-6.',
   tech='Rocq proof: refinement to a reference margin account (permutation invariant over all histories) + model/implementation correspondence', ref='DESIGN.md sections 0.2 and 6 (C03)')
CHECKS['C10'] = dict(
   text='Machine-checked theorems: (a) routing, over the is_price_near kernel REGENERATED from /repo each run - an entry/exit order has exactly the asked '
        'quantity and price, is MARKET iff within 0.015 percent of the current price, otherwise entries are LIMIT at a better and STOP at a worse price, '
        'exits are reduce-only on the closing side, LIMIT on the profit side and STOP on the loss side; (b) declarative exits - for EVERY sequence of '
        'declarations (re-assigned or edited in place), engine passes, individual cancels/fills, opens and closes, the resting exit orders inject into the '
        'rows of the latest declaration with equal quantity and price, and a closed position has none. The routing model is compared at binary64 with the '
        'real Strategy/Broker on prices at, on and around the boundary (adjacent doubles included); the exits model with the real Strategy driven through the '
        'same operations; monitors check every clause at every after() observation point of real backtests with scripted strategies.',
   note='Trusted: Coq kernel + vm_compute; translator py2v (is_price_near); Model/Routing.v (hand-written); harness/c10.py, driver.py, engine.py. The '
        'should_cancel_entry clause and market-routed exits are covered by the trace monitors only (search), not by a theorem.',
   tech='Rocq proof (routing theorems over regenerated kernel; invariant over all op sequences) + correspondence + trace monitors', ref='DESIGN.md sections 0.2 and 6 (C10)')
CHECKS['C09'] = dict(
   text='Machine-checked theorems over the liquidation_price / bankruptcy_price / candle_includes_price kernels REGENERATED from /repo each run: for every '
        'leverage 1..125 and positive entry the liquidation price lies strictly between bankruptcy and entry price on the losing side (exact arithmetic, plus a '
        'finite binary64 sweep of the coefficients with the bound in the statement); a forced close happens exactly when the mode is isolated, the position '
        'is open and the range contains the liquidation price - as a reduce-only market order for the whole position on the closing side at the bankruptcy '
        'price - and never in cross/spot; its effect on the C03 account model is: position flat, wallet minus entry value/leverage minus the fee, nothing '
        'else touched. The check model is compared with the real _check_for_liquidations on real objects (averaged entries, exact touches decided bit-exactly '
        'at binary64), every liquidation check of real isolated sessions is re-decided by Coq, and no open position may survive a minute whose range '
        'contains its liquidation price.',
   note='Trusted: Coq kernel + vm_compute (PrimFloat for bit-exact decisions); translator py2v; Model/Liquidation.v + Model/Futures.v (hand-written); harness/c09.py, '
        'driver.py, engine.py. The cancellation of resting orders after a forced close is the C10 close clause (trace monitors).',
   tech='Rocq proof over source-regenerated kernels + account model; correspondence; trace monitors re-decided by Coq', ref='DESIGN.md sections 0.2 and 6 (C09)')
CHECKS['C05'] = dict(
   text='Machine-checked invariants of a hand-written model of Order.execute/cancel, OrdersState, Sandbox.cancel_all_orders, ClosedTrades and the engine '
        'composites (_execute_cancel, the _reset of _check), for EVERY history of submissions, single cancels, cancel-all, executions, flushes of pending '
        'market orders, prunings and resets and EVERY assignment of position effects (keep / close / flip): a final status never changes; execute/cancel on a '
        'final or unknown order is the identity on the whole world (also proved on the C03/C04 account models: balances, positions, margin tables); the '
        'orders reported as active are exactly the not-final ones; every executed order is recorded exactly once in exactly one trade. The whole registry '
        '(statuses, storage, active list, pending list, current and closed trade order lists) is compared with the real objects after every operation; '
        'trace monitors re-check transitions, no-effect calls, reported-active and trade records on real backtests.',
   note='Trusted: Coq kernel + vm_compute; Model/Lifecycle.v (hand-written); harness/c05.py, driver.py, engine.py. Position effects are inputs of the model '
        '(observed in correspondence, universally quantified in theorems). Reaction orders submitted by hooks during a flush are outside the ExecutePending step.',
   tech='Rocq proof: invariants over all histories and all effect assignments + whole-registry correspondence + trace monitors', ref='DESIGN.md sections 0.2 and 6 (C05)')
NA = {}
def main():
    props = [json.loads(l)['id'] for l in open(f'{V}/properties.jsonl')]
    checks = []
    for pid in props:
        if pid not in CHECKS: continue
        c = CHECKS[pid]
        checks.append({'property_id': pid, 'quick_cmd': f'./check {pid} --tier quick', 'thorough_cmd': f'./check {pid} --tier thorough',
                       'evidence_file': f'/verif/evidence/{pid}.json', 'replay_cmd_template': f'./check {pid} --replay {{path}}',
                       'engine': 'coq-proof+correspondence',
                       'level_claimed': {'category': 'proof', 'text': c['text'], 'design_ref': c['ref']},
                       'level_note': c['note'], 'technique': c['tech']})
    na = [{'property_id': p, 'reason': NA.get(p, 'check not built yet in this round (no claim made); see DESIGN.md section 10 for the build order')}
          for p in props if p not in CHECKS]
    m = {'version': 1, 'setup_cmd': './check --setup',
         'hooks': {'guard': 'JESSE_VERIF', 'enable': 'JESSE_VERIF=1 in the environment of the harness (no source hook is needed so far: the harness observes by subclassing and wrapping at run time)',
                   'baseline_off_cmd': 'cd /repo && /venv/bin/python -m pytest -ra -q -p no:cacheprovider --timeout=900 --continue-on-collection-errors',
                   'source_commits': [], 'add_only': True},
         'engines': [{'name': 'coq-proof+correspondence', 'path': '/verif/coq', 'serves_properties': [c['property_id'] for c in checks],
                      'kind_free_text': 'Coq 8.16.1 development (models, specs, theorems) + Python harness that regenerates/ties the models to /repo and searches for failing inputs'}],
         'checks': checks, 'not_applicable': na,
         'notes': 'Every check: regenerate Gen/ from /repo, re-make the cone of Props/<id>.v, Print Assumptions, correspondence, search. See DESIGN.md.'}
    json.dump(m, open(f'{V}/MANIFEST.json', 'w'), indent=1)
    print('checks:', [c['property_id'] for c in checks])
if __name__ == '__main__':
    main()
