#!/usr/bin/env python3
"""confirm a sub-agent's seeded change in a scratch worktree and keep it under /verif/seeded/<id>_<k>/
usage: confirm_mutant.py C18 m1"""
import json, os, shutil, subprocess, sys
pid, k = sys.argv[1], sys.argv[2]
src = f'/tmp/mut/out/{pid}/{k}'
wt = f'/tmp/mut/confirm_{pid}_{k}'
def sh(c, **kw): return subprocess.run(c, shell=True, stdout=subprocess.PIPE, stderr=subprocess.STDOUT, text=True, **kw)
sh(f'git -C /repo worktree remove --force {wt}'); 
r = sh(f'git -C /repo worktree add --detach {wt} HEAD'); assert r.returncode == 0, r.stdout
env = f'cd {wt} && PYTHONPATH={wt} NUMBA_CACHE_DIR=/tmp/mut/numba_confirm_{pid}_{k} PYTHONWARNINGS=ignore'
out = {}
try:
    demo = f'{wt}/_demo_{k}.py'
    shutil.copy(f'{src}/demo.py', demo)
    r = sh(f'{env} timeout 600 /venv/bin/python {demo}'); out['demo_clean_exit'] = r.returncode; out['demo_clean_tail'] = r.stdout[-400:]
    r = sh(f'cd {wt} && git apply {src}/patch.diff'); out['apply'] = r.returncode
    if r.returncode != 0:
        r = sh(f'cd {wt} && git apply -3 {src}/patch.diff'); out['apply_3way'] = r.returncode; out['apply_out'] = r.stdout[-300:]
    r = sh(f'{env} timeout 600 /venv/bin/python {demo}'); out['demo_mutant_exit'] = r.returncode; out['demo_mutant_tail'] = r.stdout[-600:]
    os.remove(demo)
    r = sh(f'{env} timeout 1500 /venv/bin/python -m pytest -q -p no:cacheprovider --timeout=900 -x 2>&1 | tail -3'); out['tests_tail'] = r.stdout[-300:]
    out['tests_pass'] = ' passed' in r.stdout and 'failed' not in r.stdout
    diff = sh(f'cd {wt} && git diff').stdout
finally:
    sh(f'git -C /repo worktree remove --force {wt}'); shutil.rmtree(f'/tmp/mut/numba_confirm_{pid}_{k}', ignore_errors=True)
ok = out.get('demo_clean_exit') == 0 and out.get('demo_mutant_exit') == 1 and out.get('tests_pass')
print(pid, k, 'CONFIRMED' if ok else 'NOT CONFIRMED', json.dumps({x: out[x] for x in out if 'tail' not in x}))
if ok:
    dst = f'/verif/seeded/{pid}_{k}'
    os.makedirs(dst, exist_ok=True)
    open(f'{dst}/patch.diff', 'w').write(diff)
    shutil.copy(f'{src}/demo.py', f'{dst}/demo.py')
    meta = json.load(open(f'{src}/meta.json'))
    meta['confirmed_by_me'] = {'base_commit': sh('git -C /repo rev-parse HEAD').stdout.strip(), 'ran': [
        'demo.py on the clean tree (exit 0)', 'git apply patch.diff', 'demo.py with the change (exit 1)',
        'full test suite with the change (all passed)'], **{x: out[x] for x in out if 'tail' not in x}}
    json.dump(meta, open(f'{dst}/meta.json', 'w'), indent=1)
else:
    print(json.dumps(out, indent=1)[-1500:])
