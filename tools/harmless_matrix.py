#!/usr/bin/env python3
"""apply every behaviour-preserving change under /verif/harmless/<id>_<k>/ to /repo in turn, run the quick checks of every
property anchored in a file the change touches, record what was reported, restore /repo.
Writes harmless/MATRIX.json and harmless/MATRIX.md.  /repo must be clean; nothing else may use /repo meanwhile.
usage: harmless_matrix.py [--own] [change ...]   (--own: only the check of the change's own property)"""
import json, os, re, subprocess, sys
def sh(c): return subprocess.run(c, shell=True, stdout=subprocess.PIPE, stderr=subprocess.STDOUT, text=True)
assert sh('git -C /repo status --porcelain').stdout.strip() == '', '/repo is not clean'
args = sys.argv[1:]
own = '--own' in args
args = [a for a in args if a != '--own']
props = [json.loads(l) for l in open('/verif/properties.jsonl')]
by_file = {}
for p in props:
    for f in p['anchors'].get('files', []):
        by_file.setdefault(f, set()).add(p['id'])
rows = []
ids = args or sorted(d for d in os.listdir('/verif/harmless') if os.path.isdir(f'/verif/harmless/{d}'))
for d in ids:
    pid = d.split('_')[0]
    files = re.findall(r'\+\+\+ b/(\S+)', open(f'/verif/harmless/{d}/patch.diff').read())
    targets = {pid}
    if not own:
        for f in files:
            targets |= by_file.get(f, set())
    a = sh(f'git -C /repo apply /verif/harmless/{d}/patch.diff')
    assert a.returncode == 0, (d, a.stdout)
    res = {}
    try:
        for t in sorted(targets):
            r = sh(f'cd /verif && ./check {t} --tier quick')
            viol = re.findall(r'VIOLATION property=(\S+) replay=(\S+)(.*)', r.stdout)
            failed = re.findall(r'FAILED obligation: (.*)', r.stdout)
            res[t] = {'exit': r.returncode, 'violations': len(viol), 'no_input': sum('no-failing-input-found' in v[2] for v in viol),
                      'broken': [f[:140] for f in failed]}
            print(d, t, 'exit', r.returncode, 'violations', len(viol), 'broken:', '; '.join(f[:70] for f in failed), flush=True)
    finally:
        sh('git -C /repo checkout -- .')
    rows.append({'change': d, 'files': files, 'checks': res})
old = {}
if args and os.path.exists('/verif/harmless/MATRIX.json'):
    old = {r['change']: r for r in json.load(open('/verif/harmless/MATRIX.json'))}
for r in rows: old[r['change']] = r
rows = [old[k] for k in sorted(old)]
json.dump(rows, open('/verif/harmless/MATRIX.json', 'w'), indent=1)
with open('/verif/harmless/MATRIX.md', 'w') as f:
    f.write('| behaviour-preserving change | files | checks run | alarms (check: what broke) |\n|---|---|---|---|\n')
    for r in rows:
        al = '; '.join(f"{t}: {'; '.join(c['broken']) or 'VIOLATION'}" for t, c in r['checks'].items() if c['exit'] != 0)
        f.write(f"| {r['change']} | {', '.join(r['files'])} | {' '.join(sorted(r['checks']))} | {al or 'none'} |\n")
print('quiet on', sum(1 for r in rows if all(c['exit'] == 0 for c in r['checks'].values())), 'of', len(rows))
