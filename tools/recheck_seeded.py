#!/usr/bin/env python3
"""re-run every kept seeded change against /repo's current HEAD in scratch worktrees (demo on clean = 0, with the change = 1);
usage: recheck_seeded.py [ids...]  — prints one line per change; never touches /repo's working tree"""
import json, os, shutil, subprocess, sys
from concurrent.futures import ThreadPoolExecutor
def sh(c): return subprocess.run(c, shell=True, stdout=subprocess.PIPE, stderr=subprocess.STDOUT, text=True)
ids = sys.argv[1:] or sorted(d for d in os.listdir('/verif/seeded') if os.path.isdir(f'/verif/seeded/{d}'))
def one(d):
    src = f'/verif/seeded/{d}'; wt = f'/tmp/recheck/{d}'
    sh(f'git -C /repo worktree remove --force {wt}')
    r = sh(f'git -C /repo worktree add --detach {wt} HEAD')
    env = f'cd {wt} && PYTHONPATH={wt} NUMBA_CACHE_DIR=/tmp/recheck/numba_{d} PYTHONWARNINGS=ignore'
    try:
        shutil.copy(f'{src}/demo.py', f'{wt}/_demo.py')
        c = sh(f'{env} timeout 900 /venv/bin/python _demo.py').returncode
        a = sh(f'cd {wt} && git apply {src}/patch.diff').returncode
        m = sh(f'{env} timeout 900 /venv/bin/python _demo.py').returncode
    finally:
        sh(f'git -C /repo worktree remove --force {wt}'); shutil.rmtree(f'/tmp/recheck/numba_{d}', ignore_errors=True)
    return d, c, a, m
os.makedirs('/tmp/recheck', exist_ok=True)
with ThreadPoolExecutor(max_workers=6) as ex:
    for d, c, a, m in ex.map(one, ids):
        print(d, 'OK' if (c, a, m) == (0, 0, 1) else 'STALE', f'clean={c} apply={a} mutant={m}', flush=True)
sh('git -C /repo worktree prune'); shutil.rmtree('/tmp/recheck', ignore_errors=True)
