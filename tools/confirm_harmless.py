#!/usr/bin/env python3
"""confirm a behaviour-preserving change written by a sub-agent (applies to HEAD, full suite passes) and keep it under /verif/harmless/<id>_<k>/
usage: confirm_harmless.py C07 h1"""
import json, os, shutil, subprocess, sys
pid, k = sys.argv[1], sys.argv[2]
src = f'/tmp/mut/out/{pid}/{k}'
wt = f'/tmp/mut/confirm_{pid}_{k}'
def sh(c, **kw): return subprocess.run(c, shell=True, stdout=subprocess.PIPE, stderr=subprocess.STDOUT, text=True, **kw)
sh(f'git -C /repo worktree remove --force {wt}')
r = sh(f'git -C /repo worktree add --detach {wt} HEAD'); assert r.returncode == 0, r.stdout
env = f'cd {wt} && PYTHONPATH={wt} NUMBA_CACHE_DIR=/tmp/mut/numba_confirm_{pid}_{k} PYTHONWARNINGS=ignore'
out = {}
try:
    r = sh(f'cd {wt} && git apply {src}/patch.diff'); out['apply'] = r.returncode
    files = sh(f'cd {wt} && git diff --name-only').stdout.split()
    out['files'] = files
    r = sh(f'{env} timeout 1500 /venv/bin/python -m pytest -q -p no:cacheprovider --timeout=900 -x 2>&1 | tail -3'); out['tests_tail'] = r.stdout[-300:]
    out['tests_pass'] = ' passed' in r.stdout and 'failed' not in r.stdout
finally:
    sh(f'git -C /repo worktree remove --force {wt}'); shutil.rmtree(f'/tmp/mut/numba_confirm_{pid}_{k}', ignore_errors=True)
ok = out.get('apply') == 0 and out.get('tests_pass')
print(pid, k, 'CONFIRMED' if ok else 'NOT CONFIRMED', json.dumps(out))
if ok:
    dst = f'/verif/harmless/{pid}_{k}'
    os.makedirs(dst, exist_ok=True)
    shutil.copy(f'{src}/patch.diff', f'{dst}/patch.diff')
    for f in ('equiv.py',):
        if os.path.exists(f'{src}/{f}'): shutil.copy(f'{src}/{f}', f'{dst}/{f}')
    try: meta = json.load(open(f'{src}/meta.json'))
    except Exception: meta = {}
    meta['confirmed_by_me'] = {'base_commit': sh('git -C /repo rev-parse HEAD').stdout.strip(), 'files': out['files'], 'tests_pass': True}
    json.dump(meta, open(f'{dst}/meta.json', 'w'), indent=1)
